#!/usr/bin/env python
"""Differential check: refactored worktree functions vs the originals taken from HEAD.

Run as: PYTHONPATH=/tmp/seed/R20 /venv/bin/python equiv.py
"""
import copy
import dataclasses
import importlib
import importlib.util
import logging
import math
import os
import random
import subprocess
import sys
import tempfile
import time
import warnings
from collections import OrderedDict, defaultdict
from functools import partial
from pathlib import Path
from types import SimpleNamespace

import numpy as np
import pandas as pd

os.environ["TZ"] = "EST5EDT"
time.tzset()
warnings.simplefilter("ignore")

HERE = Path(__file__).resolve().parent
N = int(os.environ.get("EQUIV_N", "3200"))

# ---------------------------------------------------------------- load the two versions
import ioos_qc  # noqa: E402  (the refactored worktree)

assert Path(ioos_qc.__file__).resolve().parent == HERE / "ioos_qc", ioos_qc.__file__

tmp = Path(tempfile.mkdtemp(prefix="orig_ioos_qc_"))
pkgdir = tmp / "orig_ioos_qc"
files = subprocess.run(
    ["git", "-C", str(HERE), "ls-tree", "-r", "--name-only", "HEAD", "ioos_qc"],
    check=True, capture_output=True, text=True,
).stdout.split()
for f in files:
    if not f.endswith(".py"):
        continue
    dest = pkgdir / Path(f).relative_to("ioos_qc")
    dest.parent.mkdir(parents=True, exist_ok=True)
    dest.write_bytes(
        subprocess.run(["git", "-C", str(HERE), "show", f"HEAD:{f}"], check=True, capture_output=True).stdout,
    )
spec = importlib.util.spec_from_file_location(
    "orig_ioos_qc", pkgdir / "__init__.py", submodule_search_locations=[str(pkgdir)],
)
orig_pkg = importlib.util.module_from_spec(spec)
sys.modules["orig_ioos_qc"] = orig_pkg
spec.loader.exec_module(orig_pkg)

O = SimpleNamespace(
    qartod=importlib.import_module("orig_ioos_qc.qartod"),
    results=importlib.import_module("orig_ioos_qc.results"),
    stores=importlib.import_module("orig_ioos_qc.stores"),
    config=importlib.import_module("orig_ioos_qc.config"),
    utils=importlib.import_module("orig_ioos_qc.utils"),
    fx=importlib.import_module("orig_ioos_qc.config_creator.fx_parser"),
)
R = SimpleNamespace(
    qartod=importlib.import_module("ioos_qc.qartod"),
    results=importlib.import_module("ioos_qc.results"),
    stores=importlib.import_module("ioos_qc.stores"),
    config=importlib.import_module("ioos_qc.config"),
    utils=importlib.import_module("ioos_qc.utils"),
    fx=importlib.import_module("ioos_qc.config_creator.fx_parser"),
)
for name in vars(O):
    assert str(pkgdir) in getattr(O, name).__file__
    assert str(HERE / "ioos_qc") in getattr(R, name).__file__

# ---------------------------------------------------------------- log capture
LOG = []


class _H(logging.Handler):
    def emit(self, record):
        LOG.append((record.levelname, record.getMessage()))


logging.getLogger().addHandler(_H())
logging.getLogger().setLevel(logging.DEBUG)
logging.getLogger("ioos_qc").setLevel(logging.DEBUG)
logging.getLogger("orig_ioos_qc").setLevel(logging.DEBUG)
for noisy in ("shapely", "numba", "matplotlib", "h5py"):
    logging.getLogger(noisy).setLevel(logging.ERROR)


# ---------------------------------------------------------------- comparison
def same(a, b, path="", memo=None):  # noqa: C901, PLR0911, PLR0912
    if type(a) is not type(b):
        # the Call / ContextConfig classes of the two packages are different objects
        if type(a).__name__ != type(b).__name__ or type(a).__module__.replace("orig_", "") != type(b).__module__.replace("orig_", ""):
            return f"{path}: type {type(a)} vs {type(b)}"
    if isinstance(a, np.ma.MaskedArray):
        if a.dtype != b.dtype or a.shape != b.shape:
            return f"{path}: ma dtype/shape {a.dtype}{a.shape} vs {b.dtype}{b.shape}"
        ma, mb = np.ma.getmaskarray(a), np.ma.getmaskarray(b)
        if not np.array_equal(ma, mb):
            return f"{path}: mask {ma} vs {mb}"
        if (a.mask is np.ma.nomask) != (b.mask is np.ma.nomask):
            return f"{path}: nomask-ness differs"
        da, db = np.asarray(a.data), np.asarray(b.data)
        sel = ~ma
        return same(da[sel], db[sel], path + ".data")
    if isinstance(a, np.ndarray):
        if a.dtype != b.dtype or a.shape != b.shape:
            return f"{path}: dtype/shape {a.dtype}{a.shape} vs {b.dtype}{b.shape}"
        if a.dtype == object:
            return same(list(a.ravel()), list(b.ravel()), path + ".obj")
        eq = np.array_equal(a, b, equal_nan=a.dtype.kind in "fcmM")
        return None if eq else f"{path}: values {a!r} vs {b!r}"
    if isinstance(a, pd.DataFrame):
        if list(a.columns) != list(b.columns):
            return f"{path}: columns {list(a.columns)} vs {list(b.columns)}"
        try:
            pd.testing.assert_frame_equal(a, b, check_exact=True)
        except AssertionError as e:
            return f"{path}: frame {e}"
        return None
    if isinstance(a, (pd.Index, pd.Series)):
        return None if a.equals(b) and a.dtype == b.dtype else f"{path}: pandas {a} vs {b}"
    if dataclasses.is_dataclass(a) and not isinstance(a, type):
        for f in dataclasses.fields(a):
            r = same(getattr(a, f.name), getattr(b, f.name), f"{path}.{f.name}")
            if r:
                return r
        return None
    if isinstance(a, dict):
        if type(a) is defaultdict and type(a.default_factory) is not type(b.default_factory):
            return f"{path}: default factory"
        if list(a.keys()) != list(b.keys()):
            return f"{path}: keys {list(a.keys())} vs {list(b.keys())}"
        for k in a:
            r = same(a[k], b[k], f"{path}[{k!r}]")
            if r:
                return r
        return None
    if isinstance(a, (list, tuple)):
        if len(a) != len(b):
            return f"{path}: len {len(a)} vs {len(b)}"
        for i, (x, y) in enumerate(zip(a, b)):
            r = same(x, y, f"{path}[{i}]")
            if r:
                return r
        return None
    if isinstance(a, float) or isinstance(a, np.floating):
        if (a != a) and (b != b):
            return None
        return None if a == b and math.copysign(1, a) == math.copysign(1, b) else f"{path}: {a!r} vs {b!r}"
    if isinstance(a, partial):
        return same((a.func, a.args, a.keywords), (b.func, b.args, b.keywords), path + ".partial")
    if type(a).__name__ == "Call":
        return same(
            (a.stream_id, a.call, a.attrs, a.context.window, a.context.attrs, wkt(a.context.region)),
            (b.stream_id, b.call, b.attrs, b.context.window, b.context.attrs, wkt(b.context.region)),
            path + ".Call",
        )
    if callable(a):
        return None if a is b else f"{path}: callable {a} vs {b}"
    try:
        ok = a == b
        ok = bool(ok)
    except Exception:  # noqa: BLE001
        ok = repr(a) == repr(b)
    return None if ok else f"{path}: {a!r} vs {b!r}"


def wkt(g):
    return None if g is None else g.wkt


def outcome(f, *args, **kwargs):
    del LOG[:]
    try:
        with warnings.catch_warnings():
            warnings.simplefilter("ignore")
            val = f(*args, **kwargs)
        return ("ok", val, list(LOG))
    except RecursionError:
        raise
    except BaseException as e:  # noqa: BLE001
        return ("exc", type(e), list(LOG))


COUNTS = defaultdict(int)
EXC = defaultdict(int)
FAILS = []


def check(label, ro, rn, extra_o=None, extra_n=None, desc=None):
    COUNTS[label] += 1
    if ro[0] == "exc":
        EXC[label] += 1
    msg = None
    if ro[0] != rn[0]:
        msg = f"kind {ro[:2]} vs {rn[:2]}"
    elif ro[0] == "exc":
        if ro[1] is not rn[1]:
            msg = f"exception {ro[1]} vs {rn[1]}"
    else:
        msg = same(ro[1], rn[1], "ret")
    if msg is None and ro[2] != rn[2]:
        msg = f"logs {ro[2]} vs {rn[2]}"
    if msg is None and extra_o is not None:
        msg = same(extra_o, extra_n, "extra")
    if msg:
        FAILS.append((label, msg, desc))
        if len(FAILS) <= 15:
            print("MISMATCH", label, msg, "\n   input:", desc)


# ---------------------------------------------------------------- generators
rnd = random.Random(20)
GRID = [0.0, 0.1, 0.3, 2.3, 1.0, 2.0, 3.0, -1.0, -0.1, 0.2, 0.30000000000000004, 5.5, 10.0, 1e308, -1e308, 7.0]
ODD = [float("nan"), None, float("inf"), float("-inf")]


def gen_values(n, allow_none=True):
    out = []
    for _ in range(n):
        r = rnd.random()
        if r < 0.15:
            v = rnd.choice(ODD)
            if v is None and not allow_none:
                v = float("nan")
            out.append(v)
        elif r < 0.75:
            out.append(rnd.choice(GRID))
        else:
            out.append(round(rnd.uniform(-5, 12), rnd.choice([0, 1, 2, 6])))
    return out


def gen_series(maxlen=8):
    """A data series in one of many carriers."""
    n = rnd.randint(0, maxlen)
    vals = gen_values(n)
    kind = rnd.randint(0, 11)
    fl = [np.nan if v is None else v for v in vals]
    if kind == 0:
        return vals
    if kind == 1:
        return tuple(vals)
    if kind == 2:
        return np.array(fl, dtype=np.float64)
    if kind == 3:
        return np.array(fl, dtype=">f8")
    if kind == 4:
        big = np.array(gen_values(2 * n, allow_none=False), dtype=np.float64)
        return big[::2]
    if kind == 5:
        m = np.array([rnd.random() < 0.3 for _ in range(n)], dtype=bool)
        return np.ma.array(np.array(fl, dtype=np.float64), mask=m)
    if kind == 6:
        return np.ma.masked_all(n, dtype=np.float64)
    if kind == 7:
        return np.array([v for v in fl if v == v and abs(v) < 1e9], dtype=rnd.choice(["int32", "int64", "float32", "uint8"])) if rnd.random() < 0.8 else np.array(fl, dtype=object)
    if kind == 8:
        if n % 2 == 0 and n:
            return np.array(fl, dtype=np.float64).reshape(2, n // 2)
        return np.array(fl, dtype=np.float64)
    if kind == 9:
        if n % 2 == 0 and n:
            return np.asfortranarray(np.array(fl, dtype=np.float64).reshape(n // 2, 2))
        return pd.Series(fl, dtype="float64")
    if kind == 10:
        return [np.nan] * n if rnd.random() < 0.5 else [None] * n
    return rnd.choice([["a", "b"], "abc", None, 3.5, [[1, 2], [3]], np.float64(2.3), np.array(2.0)])


def gen_num():
    v = rnd.choice(GRID[:13] + [4.0, 86400.0, 1e5])
    k = rnd.randint(0, 9)
    if k == 0:
        return np.float64(v)
    if k == 1:
        return np.array(v)
    if k == 2 and float(v).is_integer() and abs(v) < 1e9:
        return int(v)
    if k == 3 and float(v).is_integer() and abs(v) < 1e9:
        return np.int32(v)
    if k == 4:
        return np.float32(v)
    return v


def gen_span(allow_bad=True):
    r = rnd.random()
    if allow_bad and r < 0.12:
        return rnd.choice([
            None, (1, 2, 3), [1], (), np.array([1.0, 2.0]), "ab", ("a", "b"), (None, 1), (1, None), 5,
            (float("nan"), 1.0), (1.0, float("nan")), ([1], [2]), (np.array([1, 2]), np.array([3, 4])),
        ])
    a, b = gen_num(), gen_num()
    if rnd.random() < 0.1:
        a = rnd.choice([float("inf"), float("-inf")])
    return rnd.choice([tuple, list])((a, b))


def gen_flags(n):
    pool = [1, 2, 3, 4, 9, 0, 5, 1, 3, 4]
    vals = [rnd.choice(pool) for _ in range(n)]
    k = rnd.randint(0, 6)
    if k == 0:
        return np.array(vals, dtype="uint8")
    if k == 1:
        return np.array(vals, dtype="int64")
    if k == 2:
        a = np.array(vals, dtype="float64")
        if n:
            a[rnd.randrange(n)] = np.nan
        return a
    if k == 3:
        return np.ma.array(np.array(vals, dtype="uint8"), mask=[rnd.random() < 0.4 for _ in range(n)])
    if k == 4:
        return np.ma.masked_all(n, dtype="uint8")
    if k == 5:
        return np.ma.array(np.array(vals, dtype="uint8"))
    return pd.Series(vals, dtype="uint8")


def gen_vectors():
    r = rnd.random()
    n = rnd.randint(0, 8)
    k = rnd.randint(0, 4)
    vs = [gen_flags(n) for _ in range(k)]
    if r < 0.06 and vs:
        vs[rnd.randrange(len(vs))] = gen_flags(n + 1)
    elif r < 0.10 and vs:
        vs[rnd.randrange(len(vs))] = np.ones((n, 2), dtype="uint8")
    elif r < 0.13 and vs:
        vs[rnd.randrange(len(vs))] = rnd.choice([np.array(1), [1, 2], None])
    elif r < 0.16 and vs and n:
        vs[-1] = np.ones((n, 1), dtype="uint8")
    if rnd.random() < 0.2:
        return tuple(vs)
    return vs


# ---------------------------------------------------------------- per function drivers
def run_qartod_compare():
    for _ in range(N):
        vs = gen_vectors()
        if rnd.random() < 0.05:
            check("qartod_compare", outcome(O.qartod.qartod_compare, iter(list(vs))), outcome(R.qartod.qartod_compare, iter(list(vs))), desc=vs)
            continue
        vo, vn = copy.deepcopy(vs), copy.deepcopy(vs)
        check("qartod_compare", outcome(O.qartod.qartod_compare, vo), outcome(R.qartod.qartod_compare, vn), vo, vn, desc=vs)


def run_aggregate():
    assert R.qartod.aggregate.aggregate is True and R.qartod.aggregate.standard_name == O.qartod.aggregate.standard_name
    assert R.qartod.aggregate.long_name == O.qartod.aggregate.long_name
    for _ in range(N):
        vs = gen_vectors()
        k = rnd.random()
        if k < 0.5:
            res = [SimpleNamespace(results=v) for v in vs]
        elif k < 0.9:
            res = [R.results.CollectedResult("s", "qartod", f"t{i}", None, results=v) for i, v in enumerate(vs)]
        else:
            res = [SimpleNamespace(results=v) for v in vs] + [rnd.choice([None, SimpleNamespace(other=1)])]
        if rnd.random() < 0.1:
            res = tuple(res)
        check("aggregate", outcome(O.qartod.aggregate, res), outcome(R.qartod.aggregate, res), desc=vs)


def run_gross_range():
    for _ in range(N + 800):
        inp = gen_series()
        fs = gen_span()
        ss = None if rnd.random() < 0.3 else gen_span()
        if rnd.random() < 0.65 and isinstance(fs, (tuple, list)) and len(fs) == 2:
            # a suspect span that lies inside / on the fail span
            try:
                lo, hi = sorted(float(x) for x in fs)
                ss = rnd.choice([(lo, hi), (hi, lo), [lo + 0.1, hi], (lo, hi - 0.1), (lo, lo), (hi, hi)])
            except Exception:  # noqa: BLE001
                pass
        a1, a2 = copy.deepcopy((inp, fs, ss)), copy.deepcopy((inp, fs, ss))
        if rnd.random() < 0.5:
            ro, rn = outcome(O.qartod.gross_range_test, *a1), outcome(R.qartod.gross_range_test, *a2)
        else:
            ro = outcome(O.qartod.gross_range_test, suspect_span=a1[2], inp=a1[0], fail_span=a1[1])
            rn = outcome(R.qartod.gross_range_test, suspect_span=a2[2], inp=a2[0], fail_span=a2[1])
        check("gross_range_test", ro, rn, a1, a2, desc=(inp, fs, ss))


def gen_threshold():
    r = rnd.random()
    if r < 0.2:
        return None
    if r < 0.3:
        return rnd.choice([float("inf"), float("nan"), -1.0, 0, "x", [1.0], np.array([1.0, 2.0])])
    return gen_num()


def run_spike():
    for _ in range(N + 800):
        inp = gen_series()
        st, ft = gen_threshold(), gen_threshold()
        method = rnd.choice(["average"] * 12 + ["differential"] * 12 + ["Average", "", None, "median", 1, np.str_("average")])
        a1, a2 = copy.deepcopy((inp, st, ft)), copy.deepcopy((inp, st, ft))
        ro = outcome(O.qartod.spike_test, a1[0], a1[1], a1[2], method=method)
        rn = outcome(R.qartod.spike_test, a2[0], a2[1], a2[2], method=method)
        check("spike_test", ro, rn, a1, a2, desc=(inp, st, ft, method))
    # defaults
    for _ in range(100):
        inp = gen_series()
        check("spike_test", outcome(O.qartod.spike_test, inp, fail_threshold=1), outcome(R.qartod.spike_test, inp, fail_threshold=1), desc=inp)


DATES = [
    "2020-01-01", "2020-01-01T12:00:00", "2020-02-29", "2020-06-15", "2020-12-31T23:59:59", "2021-01-03",
    "2019-12-30", "2021-07-04T05:00:00", "1969-12-31", "2261-01-01", "2020-03-08T07:00:00", "2020-11-01T06:30:00",
]


def gen_times(n):
    picks = [rnd.choice(DATES) for _ in range(n)]
    k = rnd.randint(0, 9)
    if k <= 2:
        a = np.array(picks, dtype=f"datetime64[{rnd.choice(['ns', 's', 'm', 'h', 'D', 'ms'])}]")
        if n and rnd.random() < 0.4:
            a[rnd.randrange(n)] = np.datetime64("NaT")
        return a
    if k == 3:
        return pd.DatetimeIndex(pd.to_datetime(picks, format="ISO8601")).tz_localize("UTC")
    if k == 4:
        return pd.Series(pd.DatetimeIndex(pd.to_datetime(picks, format="ISO8601")).tz_localize("UTC"))
    if k == 5:
        return pd.Series(pd.to_datetime(picks, format="ISO8601"))
    if k == 6:
        base = rnd.choice([0, 1577836800, 1600000000])
        return np.array([base + rnd.choice([0, 1, 3600, 86400, 86400 * 40, 86400 * 200]) for _ in range(n)], dtype=rnd.choice(["int32", "uint32", "int64", "float64"]))
    if k == 7:
        return [pd.Timestamp(p) for p in picks]
    if k == 8:
        return picks
    idx = pd.DatetimeIndex(pd.to_datetime(picks, format="ISO8601"))
    if n and rnd.random() < 0.5:
        idx = idx.insert(0, pd.NaT)[:n]
    return idx


def gen_members():
    members = []
    for _ in range(rnd.randint(0, 4)):
        m = {}
        r = rnd.random()
        if r < 0.45:
            a, b = rnd.choice(DATES + ["9999-01-01"] * 1), rnd.choice(DATES)
            m["tspan"] = rnd.choice([(a, b), [pd.Timestamp(DATES[0]), np.datetime64(DATES[5])], (b, a)]) if a != "9999-01-01" or rnd.random() < 0.3 else (b, rnd.choice(DATES))
            if rnd.random() < 0.1:
                import datetime as dt
                m["tspan"] = (dt.datetime(2020, 1, 1), dt.datetime(2020, 12, 31, 12))  # naive bounds
        else:
            m["period"] = rnd.choice(["month", "dayofyear", "week", "weekofyear", "quarter", "year", "dayofweek", "hour", "bogus", "day"])
            m["tspan"] = rnd.choice([(0, 3), (1, 6), (6, 12), (1, 53), (2020, 2020), (0, 400), (12, 1), (1.5, 2.5)])
        m["vspan"] = gen_span(allow_bad=rnd.random() < 0.3)
        if rnd.random() < 0.5:
            m["fspan"] = gen_span(allow_bad=rnd.random() < 0.3)
        if rnd.random() < 0.45:
            m["zspan"] = rnd.choice([(0, 10), (10, 0), (0.1, 2.3), (-5, 5), (100, 200), (0, float("inf")), (2.3, 2.3)])
        members.append(m)
    return members


def build_cfg(mod, members):
    c = mod.ClimatologyConfig()
    for m in members:
        c.add(**copy.deepcopy(m))
    return c


def gen_z(n):
    r = rnd.random()
    if r < 0.15:
        return np.ma.masked_all(n, dtype=np.float64)
    if r < 0.3:
        return np.ma.masked_invalid(np.full(n, np.nan))
    vals = np.array([rnd.choice([0.0, 0.1, 2.3, 5.0, 10.0, 10.000001, -1.0, 150.0, np.nan, np.inf]) for _ in range(n)], dtype=np.float64)
    z = np.ma.masked_invalid(vals)
    if r < 0.4:
        return vals  # a plain ndarray: no .count()/.mask semantics of masked arrays
    return z


def run_climatology():
    done = 0
    while done < N + 400:
        members = gen_members()
        bo, bn = outcome(build_cfg, O.qartod, members), outcome(build_cfg, R.qartod, members)
        if bo[0] != bn[0] or (bo[0] == "exc" and bo[1] is not bn[1]):
            check("ClimatologyConfig.check", bo, bn, desc=members)
            done += 1
            continue
        if bo[0] == "exc":
            if rnd.random() < 0.2:
                check("ClimatologyConfig.check", bo, bn, desc=members)
                done += 1
            continue
        co, cn = bo[1], bn[1]
        n = rnd.randint(0, 8)
        if rnd.random() < 0.55:
            # direct call of the method
            vals = np.array([np.nan if v is None else v for v in gen_values(n)], dtype=np.float64)
            inp = np.ma.masked_invalid(vals)
            if rnd.random() < 0.1:
                inp = np.ma.array(vals, mask=[rnd.random() < 0.5 for _ in range(n)])
            if rnd.random() < 0.04:
                inp = vals
            picks = [rnd.choice(DATES + [None]) for _ in range(n)]
            tinp = pd.DatetimeIndex(pd.to_datetime(picks, format="ISO8601"))
            if rnd.random() < 0.1:
                tinp = pd.DatetimeIndex(pd.to_datetime(picks, format="ISO8601")).tz_localize("UTC")
            zinp = gen_z(n if rnd.random() < 0.93 else n + 1)
            a1, a2 = copy.deepcopy((tinp, inp, zinp)), copy.deepcopy((tinp, inp, zinp))
            check("ClimatologyConfig.check", outcome(co.check, *a1), outcome(cn.check, *a2), (a1, co.members), (a2, cn.members), desc=(members, tinp, inp, zinp))
        else:
            inp = gen_series()
            try:
                n2 = np.array(inp).size
            except Exception:  # noqa: BLE001
                n2 = n
            tinp = gen_times(n2 if rnd.random() < 0.9 else n2 + 1)
            zr = rnd.random()
            zinp = gen_z(n2) if zr < 0.6 else ([None] * n2 if zr < 0.8 else np.zeros(n2))
            if isinstance(inp, np.ndarray) and inp.ndim == 2 and rnd.random() < 0.7:
                zinp = np.asarray(np.ma.filled(zinp, np.nan) if isinstance(zinp, np.ma.MaskedArray) else zinp, dtype=float).reshape(inp.shape) if n2 == np.size(zinp) else zinp
            src = rnd.random()
            if src < 0.5:
                ro = outcome(O.qartod.climatology_test, co, inp, tinp, zinp)
                rn = outcome(R.qartod.climatology_test, cn, inp, tinp, zinp)
            else:
                ro = outcome(O.qartod.climatology_test, copy.deepcopy(members), inp, tinp, zinp)
                rn = outcome(R.qartod.climatology_test, copy.deepcopy(members), inp, tinp, zinp)
            check("ClimatologyConfig.check", ro, rn, desc=(members, tinp, inp, zinp))
        done += 1


STREAM_IDS = ["temp", "sal[1]", "a*b", "what?", "", None, "x.y", "temp"]
TESTS = ["gross_range_test", "spike_test", "flat_line_test", "t[0]", "t*", "gross_range_test"]
FUNCS = [R.qartod.gross_range_test, R.qartod.spike_test, R.qartod.flat_line_test, R.qartod.aggregate, None]


def gen_context_results():
    out = []
    n = rnd.randint(0, 7)
    base_t = np.array([rnd.choice(DATES[:8]) for _ in range(n)], dtype="datetime64[ns]")
    for _ in range(rnd.randint(0, 4)):
        r = rnd.random()
        if r < 0.2:
            out.append(R.results.CallResult(
                package=rnd.choice(["qartod", "argo"]), test=rnd.choice(TESTS), function=rnd.choice(FUNCS),
                results=gen_flags(n),
            ))
            continue
        kind = rnd.random()
        if kind < 0.35:
            sub = np.ones(n, dtype=bool)
        elif kind < 0.45:
            sub = np.zeros(n, dtype=bool)
        else:
            sub = np.array([rnd.random() < 0.5 for _ in range(n)], dtype=bool)
        k = int(sub.sum())
        calls = []
        for _ in range(rnd.randint(0, 3)):
            res = np.ma.array(np.array([rnd.choice([1, 2, 3, 4, 9]) for _ in range(k)], dtype=rnd.choice(["uint8", "uint8", "int64"])))
            if rnd.random() < 0.2:
                res = np.ma.array(res, mask=[rnd.random() < 0.3 for _ in range(k)])
            if rnd.random() < 0.03:
                res = res[:-1] if k else np.ma.ones(1, dtype="uint8")
            calls.append(R.results.CallResult("qartod" if rnd.random() < 0.8 else "argo", rnd.choice(TESTS), rnd.choice(FUNCS), res))
        data = np.array(gen_values(k, allow_none=False), dtype=rnd.choice(["float64", "float32"]))
        fields = dict(
            data=data, tinp=base_t[sub], zinp=np.arange(k, dtype="float64"),
            lat=np.full(k, 40.5), lon=np.array([-70.0 - i for i in range(k)]),
        )
        bad = rnd.random()
        if bad < 0.05:
            fields[rnd.choice(list(fields))] = None
        elif bad < 0.08:
            fields["zinp"] = np.arange(k + 1, dtype="float64")
        elif bad < 0.12:
            fields["lat"] = np.ma.masked_all(k, dtype="float64")
        cr = R.results.ContextResult(stream_id=rnd.choice(STREAM_IDS), results=calls if rnd.random() < 0.9 else tuple(calls), subset_indexes=sub, **fields)
        out.append(cr)
        if rnd.random() < 0.35 and n:
            # the complementary subset of the same stream
            sub2 = ~sub
            k2 = int(sub2.sum())
            calls2 = [R.results.CallResult(c.package, c.test, c.function, np.ma.array(np.full(k2, 4, dtype=c.results.dtype))) for c in calls]
            out.append(R.results.ContextResult(
                stream_id=cr.stream_id, results=calls2, subset_indexes=sub2,
                data=np.arange(k2, dtype="float64"), tinp=base_t[sub2], zinp=np.arange(k2, dtype="float64"),
                lat=np.full(k2, 41.5), lon=np.full(k2, -71.5),
            ))
    if rnd.random() < 0.04:
        out.append(rnd.choice([None, 5, SimpleNamespace(results=[])]))
    return out


def to_orig(res):
    """The same inputs built from the classes of the original results module."""
    out = []
    for r in copy.deepcopy(res):
        if isinstance(r, R.results.CallResult):
            r = O.results.CallResult(*r)
        elif isinstance(r, R.results.ContextResult):
            calls = type(r.results)(O.results.CallResult(*c) for c in r.results)
            r = O.results.ContextResult(*r)._replace(results=calls)
        out.append(r)
    return out


def run_collect():
    for _ in range(N):
        res = gen_context_results()
        a1, a2 = to_orig(res), copy.deepcopy(res)
        if rnd.random() < 0.1:
            ro, rn = outcome(O.results.collect_results_list, iter(a1)), outcome(R.results.collect_results_list, iter(a2))
        else:
            ro, rn = outcome(O.results.collect_results_list, a1), outcome(R.results.collect_results_list, a2)
        check("collect_results_list", ro, rn, a1, a2, desc=res)
        if ro[0] == "ok" and rn[0] == "ok":
            # aliasing: whole-stream results must hand out the very same input objects
            for x, y, in zip(ro[1], rn[1]):
                alias_o = [any(getattr(x, f) is getattr(c, f, None) for c in a1 if hasattr(c, "stream_id")) for f in ("data", "tinp", "zinp", "lat", "lon")]
                alias_n = [any(getattr(y, f) is getattr(c, f, None) for c in a2 if hasattr(c, "stream_id")) for f in ("data", "tinp", "zinp", "lat", "lon")]
                if alias_o != alias_n:
                    FAILS.append(("collect_results_list", "aliasing differs", res))
        b1, b2 = to_orig(res), copy.deepcopy(res)
        ro, rn = outcome(O.results.collect_results_dict, b1), outcome(R.results.collect_results_dict, b2)
        check("collect_results_dict", ro, rn, b1, b2, desc=res)
        if ro[0] == "ok" and rn[0] == "ok":
            for d in (ro[1], rn[1]):
                assert type(d["__new__"]) is defaultdict and type(d["__new__"]["p"]) is OrderedDict


def run_store():
    done = 0
    while done < N:
        res = [r for r in gen_context_results() if isinstance(r, (R.results.ContextResult, R.results.CallResult))]
        axes = rnd.choice([None, None, None, {"t": "time", "z": "depth", "y": "y", "x": "x"}, {"t": "t"}, {"t": "temp", "z": "z", "y": "lat", "x": "lon"}, {"t": 1, "z": (2, 3), "y": None, "x": 2.5}])
        so, sn = outcome(O.stores.PandasStore, copy.deepcopy(res), axes), outcome(R.stores.PandasStore, copy.deepcopy(res), axes)
        if so[0] != "ok" or sn[0] != "ok":
            if so[0] != sn[0]:
                check("PandasStore.save", so, sn, desc=res)
            continue
        so, sn = so[1], sn[1]
        if rnd.random() < 0.3:
            ao, an = outcome(so.compute_aggregate), outcome(sn.compute_aggregate)
            if ao[0] != "ok" or an[0] != "ok":
                continue
        pool = STREAM_IDS + TESTS + FUNCS + ["qartod", "sal[", "*", "?"]
        kw = {}
        if rnd.random() < 0.5:
            kw["include"] = [rnd.choice(pool) for _ in range(rnd.randint(0, 3))]
        if rnd.random() < 0.5:
            kw["exclude"] = rnd.choice([list, tuple])([rnd.choice(pool) for _ in range(rnd.randint(0, 3))])
        if rnd.random() < 0.05:
            kw["include"] = rnd.choice(["temp", 5, {"temp": 1}])
        if rnd.random() < 0.6:
            kw["write_axes"] = rnd.choice([True, False, 1, 0, None, "yes", np.bool_(True)])
        if rnd.random() < 0.6:
            kw["write_data"] = rnd.choice([True, False, 1, 0, None])
        for _ in range(2):  # twice on the same store: no state may leak between calls
            ro, rn = outcome(so.save, **copy.deepcopy(kw)), outcome(sn.save, **copy.deepcopy(kw))
            check("PandasStore.save", ro, rn, so.collected_results, sn.collected_results, desc=(res, axes, kw))
            done += 1


GEOM = {"type": "Polygon", "coordinates": [[[-80, 40], [-70, 40], [-70, 60], [-80, 60], [-80, 40]]]}
POINT = {"type": "Point", "coordinates": [1.0, 2.0]}


def gen_region():
    from shapely.geometry import GeometryCollection, shape
    return rnd.choice([
        None, {}, [], "", 0,
        {"type": "Feature", "geometry": GEOM},
        {"type": "FeatureCollection", "features": [{"type": "Feature", "geometry": GEOM}, {"type": "Feature", "geometry": POINT}]},
        {"type": "FeatureCollection", "features": []},
        {"features": [{"nogeometry": 1}]},
        {"features": [{"geometry": GEOM}], "geometry": POINT},
        {"geometry": {"type": "Nope"}},
        {"geometry": None},
        {"something": "else"},
        "features", "geometry", ["features"], ["geometry"],
        GeometryCollection([shape(GEOM)]), GeometryCollection(),
        shape(GEOM),
    ])


def gen_streams():
    streams = OrderedDict() if rnd.random() < 0.5 else {}
    for _ in range(rnd.randint(0, 3)):
        sid = rnd.choice(["temp", "sal[1]", "a*b", "what?", 5, "x"])
        pk = OrderedDict()
        for _ in range(rnd.randint(0, 3)):
            package = rnd.choice(["qartod", "qartod", "argo", "axds", "nope", "qartod.sub", "utils", "", "config_creator"])
            mods = OrderedDict()
            for _ in range(rnd.randint(0, 3)):
                t = rnd.choice(["gross_range_test", "spike_test", "aggregate", "location_test", "bogus", "pressure_increasing_test", "FLAGS", "np", "isnan", "flat_line_test", "rate_of_change_test", "spike_test"])
                mods[t] = rnd.choice([None, {}, {"fail_span": [0, 10]}, {"suspect_threshold": 1, "fail_threshold": 2}, OrderedDict(a=1), []])
                if rnd.random() < 0.03:
                    mods[t] = rnd.choice([5, "ab", [1]])
            pk[package] = mods if rnd.random() < 0.95 else rnd.choice([None, [], 5])
        if rnd.random() < 0.1:
            class S(OrderedDict):
                pass
            pk = S(pk)
            pk.attrs = {"units": "m"}
        streams[sid] = pk if rnd.random() < 0.97 else None
    return streams


def gen_context_source():
    cfg = {}
    if rnd.random() < 0.92:
        cfg["streams"] = gen_streams()
    if rnd.random() < 0.5:
        cfg["region"] = gen_region()
    r = rnd.random()
    if r < 0.2:
        cfg["window"] = rnd.choice([
            {"starting": "2020-01-01T00:00:00Z", "ending": "2020-04-01T00:00:00Z"}, {"starting": None}, {},
            {"ending": 5}, {"start": 1}, None, {"starting": 0, "ending": 0}, OrderedDict(ending="2021-01-01"),
        ])
    elif r < 0.3:
        cfg["window"] = R.config.tw(starting=rnd.choice([None, "2020-01-01"]), ending=rnd.choice([None, 7]))
    elif r < 0.33:
        cfg["window"] = O.config.tw(starting=1)
    elif r < 0.34:
        cfg["window"] = ("a", "b")
    if rnd.random() < 0.3:
        cfg["attrs"] = rnd.choice([{"title": "x"}, None, {}, []])
    if rnd.random() < 0.5:
        cfg = OrderedDict(cfg)
    return cfg


def window_for(src, mod):
    """Time windows are namedtuples of the package's own class; foreign ones stay foreign."""
    other = R if mod is O else O
    if isinstance(src, dict) and type(src.get("window")) in (R.config.tw, O.config.tw):
        w = src["window"]
        src["window"] = (mod if type(w) is R.config.tw else other).config.tw(*w)
    return src


def ctx_state(res):
    if res[0] != "ok":
        return res
    c = res[1]
    return ("ok", (
        c.config, c.attrs, wkt(c.region), type(c.region).__name__, tuple(c.window), type(c.window).__name__,
        list(c.calls), tuple(c.context.window), wkt(c.context.region), c.context.attrs, str(c),
        [ca.attrs for ca in c.calls], [ca.context is c.context for ca in c.calls],
    ), res[2])


def run_context_config():
    for i in range(N):
        src = gen_context_source()
        if i % 25 == 0:
            src = """
streams:
    variable1:
        qartod:
            location_test:
                bbox: [-80, 40, -70, 60]
            nothere:
                a: 1
    variable2:
        nopackage:
            x:
        qartod:
            gross_range_test:
                suspect_span: [1, 11]
                fail_span: [0, 12]
window:
    starting: 2020-01-01T00:00:00Z
"""
        s1, s2 = window_for(copy.deepcopy(src), O), window_for(copy.deepcopy(src), R)
        ro, rn = outcome(O.config.ContextConfig, s1), outcome(R.config.ContextConfig, s2)
        attrs_shared_o = ro[0] == "ok" and isinstance(s1, dict) and ro[1].attrs is s1.get("attrs", None)
        attrs_shared_n = rn[0] == "ok" and isinstance(s2, dict) and rn[1].attrs is s2.get("attrs", None)
        check("ContextConfig.__init__", ctx_state(ro), ctx_state(rn), (s1, attrs_shared_o), (s2, attrs_shared_n), desc=src)
    # the same configuration object used twice with an in-place edit in between
    for _ in range(200):
        src = gen_context_source()
        s1, s2 = window_for(copy.deepcopy(src), O), window_for(copy.deepcopy(src), R)
        for s, mod, acc in ((s1, O, []), (s2, R, [])):
            acc.append(ctx_state(outcome(mod.config.ContextConfig, s)))
            if isinstance(s.get("streams"), dict):
                s["streams"]["extra"] = {"qartod": {"spike_test": {"suspect_threshold": 3}}}
            s["window"] = {"ending": "2021"}
            acc.append(ctx_state(outcome(mod.config.ContextConfig, s)))
            if mod is O:
                accs_o = acc
            else:
                accs_n = acc
        check("ContextConfig.__init__", accs_o[0], accs_n[0], desc=src)
        check("ContextConfig.__init__", accs_o[1], accs_n[1], s1, s2, desc=src)


SIDE = []


def f_plain(inp, a=1, b=2):
    SIDE.append(("plain", a, b))
    return np.ma.array([a, b])


def f_raises(inp, tinp=None):
    SIDE.append("raises")
    raise ValueError("nope %s" % (tinp,))


def f_kwonly(inp, *, zinp=None, **rest):
    SIDE.append(("kwonly", zinp, tuple(rest)))
    return np.ma.array([1])


def f_posonly(inp, /, tinp=None, *more):
    SIDE.append(("posonly", tinp, more))
    return tinp


def f_keyboard(inp):
    raise KeyboardInterrupt


def f_mutates(inp, fail_span=None):
    if isinstance(fail_span, list):
        fail_span.append(99)
    if isinstance(inp, list):
        inp.append(1)
    return fail_span


class NoName:
    def __call__(self, inp, a=1):
        SIDE.append("noname")
        return a


RUN_FUNCS = [
    R.qartod.gross_range_test, R.qartod.spike_test, R.qartod.location_test, R.qartod.aggregate,
    f_plain, f_raises, f_kwonly, f_posonly, f_keyboard, f_mutates, NoName(), len, partial(f_plain, a=5), dict,
]


def run_call_run():
    for _ in range(N):
        func = rnd.choice(RUN_FUNCS)
        cfgkw = rnd.choice([
            {}, {"fail_span": [0, 10]}, {"fail_span": (0, 10), "suspect_span": [1, 9]}, {"suspect_threshold": 1, "fail_threshold": 2},
            {"a": 3}, {"bogus": 1}, {"fail_span": [5]}, {"a": 1, "b": 2, "c": 3}, {"tinp": "cfg"}, {"zinp": 4, "q": 1},
        ])
        passed = {}
        for key in ("inp", "tinp", "zinp", "lat", "lon", "a", "fail_span", "extra"):
            if rnd.random() < 0.45:
                passed[key] = rnd.choice([gen_series(), [1.0, 2.0, 30.0, 2.0], np.array([1.0, np.nan, 5.0]), None, 7, [3, 4]])
        mo, mn = copy.deepcopy((cfgkw, passed)), copy.deepcopy((cfgkw, passed))
        callo = O.config.Call(stream_id="s", call=partial(func, (), **mo[0]))
        calln = R.config.Call(stream_id="s", call=partial(func, (), **mn[0]))
        del SIDE[:]
        ro = outcome(callo.run, **mo[1])
        side_o = list(SIDE)
        del SIDE[:]
        rn = outcome(calln.run, **mn[1])
        side_n = list(SIDE)
        # CallResult -> tuple for comparison
        conv = lambda r: r if r[0] != "ok" else ("ok", [tuple(x) for x in r[1]], r[2])  # noqa: E731
        check("Call.run", conv(ro), conv(rn), (mo, repr(side_o), callo.kwargs), (mn, repr(side_n), calln.kwargs), desc=(func, cfgkw, passed))


def gen_nested(depth=0):
    r = rnd.random()
    if depth > 5 or r < 0.25:
        return rnd.choice([1, "a", None, [1, {"x": {}}], (), 2.5, np.array([1]), {}])
    ctor = rnd.choice([dict, dict, OrderedDict, lambda x: defaultdict(dict, x)])
    return ctor({rnd.choice("abcdef"): gen_nested(depth + 1) for _ in range(rnd.randint(0, 3))})


class FalsyDict(dict):
    def __bool__(self):
        return False


class MyMap(dict):
    pass


def run_dicts():
    for _ in range(N):
        d = gen_nested()
        r = rnd.random()
        if r < 0.03:
            d = FalsyDict(a={"b": 1})
        elif r < 0.06:
            from types import MappingProxyType
            d = MappingProxyType({"a": {"b": {}}})
        elif r < 0.09:
            d = {"a": FalsyDict(x={}), "b": MyMap(c=MyMap())}
        check("dict_depth", outcome(O.utils.dict_depth, d), outcome(R.utils.dict_depth, d), desc=d)
    deep = cur = {}
    for _ in range(300):
        cur["k"] = {}
        cur = cur["k"]
    check("dict_depth", outcome(O.utils.dict_depth, deep), outcome(R.utils.dict_depth, deep))
    from types import MappingProxyType
    for _ in range(N):
        d, u = gen_nested(), gen_nested()
        r = rnd.random()
        if r < 0.05:
            u = MappingProxyType({"a": MappingProxyType({"b": 1}), "c": 2})
        elif r < 0.1:
            d = MappingProxyType({"a": 1})
        elif r < 0.15:
            d = rnd.choice([None, 5, "abc", [1]])
            u = {"a": {"b": {"c": 1}}, "d": 2, "e": {"f": 3}}
        elif r < 0.2:
            d = {"a": 5, "b": {"c": [1]}, "e": "str"}
            u = {"a": {"x": 1}, "b": {"c": {"y": 2}}, "e": {"z": {"w": 1}}}
        d1, u1, d2, u2 = clone(d), clone(u), clone(d), clone(u)
        ro, rn = outcome(O.utils.dict_update, d1, u1), outcome(R.utils.dict_update, d2, u2)
        ident_o = ro[0] == "ok" and ro[1] is d1
        ident_n = rn[0] == "ok" and rn[1] is d2
        check("dict_update", ro, rn, (_plain(d1), _plain(u1), ident_o), (_plain(d2), _plain(u2), ident_n), desc=(d, u))


def clone(x):
    from types import MappingProxyType
    if isinstance(x, MappingProxyType):
        return MappingProxyType({k: clone(v) for k, v in x.items()})
    return copy.deepcopy(x)


def _plain(x):
    from types import MappingProxyType
    return dict(x) if isinstance(x, MappingProxyType) else x


NUMS = ["3.", "2.e1", ".5", "007", "1e3", "1E-2", "+4", "-2", "0", "2", "3.25", "10", "1e400", "0.1", "0.3", "2.3", "1.e", "5e"]
NAMES = ["mean", "min", "max", "std", "PI", "pi", "E", "e", "Pi", "foo", "x_1", "Mean", "stdev", "a$"]
FNAMES = ["sin", "cos", "tan", "exp", "abs", "trunc", "round", "sgn", "nofn", "max", "SIN"]


def gen_expr(depth=0):
    r = rnd.random()
    if depth > 3 or r < 0.3:
        return rnd.choice(NUMS) if rnd.random() < 0.6 else rnd.choice(NAMES)
    if r < 0.6:
        return f"{gen_expr(depth + 1)} {rnd.choice('+-*/^')} {gen_expr(depth + 1)}"
    if r < 0.7:
        return f"({gen_expr(depth + 1)})"
    if r < 0.8:
        return rnd.choice(["-", "--", "+", "-+-"]) + gen_expr(depth + 1)
    nargs = rnd.choice([1, 1, 1, 2, 0, 3])
    return f"{rnd.choice(FNAMES)}({', '.join(gen_expr(depth + 1) for _ in range(nargs))})"


def run_fx():
    bnf = R.fx.BNF()
    done = 0
    junk = ["", "+-", "*/", "unary -", None, 5, 2.5, ("sin", 1), ("round", 2), ("sin", 1, 2), ("abs",), (), ["sin", 1], ("trunc", 0), ("mean", 3), (("a",), 1), "PI", "E", "mean", "std", "3.", ".5", "x", "_", "$", " 1", "1_0", "nan", "inf", "-inf", "٣", "é", ("sgn", 1), ("nofn", 1), b"1"]
    while done < N + 600:
        stats = {"mean": rnd.choice(GRID), "min": rnd.choice([-1.0, 0, 2]), "max": rnd.choice([10.5, 7, float("inf")]), "std": rnd.choice([0.1, 0.3, 1])}
        if rnd.random() < 0.1:
            stats.pop(rnd.choice(list(stats)))
        if rnd.random() < 0.03:
            stats = rnd.choice([None, [], "mean"])
        if rnd.random() < 0.75:
            expr = gen_expr()
            R.fx.exprStack[:] = []
            try:
                bnf.parseString(expr, parseAll=True)
            except Exception:  # noqa: BLE001
                continue
            stack = R.fx.exprStack[:]
            if rnd.random() < 0.1 and stack:
                stack.pop(rnd.randrange(len(stack)))
        else:
            expr = None
            stack = [rnd.choice(junk + NUMS + ["+", "-", "*", "/", "^", "2", "3"]) for _ in range(rnd.randint(0, 6))]
        s1, s2 = list(stack), list(stack)
        ro, rn = outcome(O.fx.evaluate_stack, s1, stats), outcome(R.fx.evaluate_stack, s2, stats)
        if ro[0] == "exc" and ro[1] is Exception and rn[0] == "exc" and rn[1] is Exception:
            # compare the message of the invalid identifier error too
            mo = mn = None
            try:
                O.fx.evaluate_stack(list(stack), stats)
            except Exception as e:  # noqa: BLE001
                mo = str(e)
            try:
                R.fx.evaluate_stack(list(stack), stats)
            except Exception as e:  # noqa: BLE001
                mn = str(e)
            if mo != mn:
                FAILS.append(("evaluate_stack", f"message {mo} vs {mn}", stack))
        tag = lambda r: r if r[0] != "ok" else ("ok", (type(r[1]).__name__, r[1]), r[2])  # noqa: E731
        check("fx_parser.evaluate_stack", tag(ro), tag(rn), s1, s2, desc=(expr, stack, stats))
        done += 1
    # through the public entry point
    for expr in ["mean + 3.*std", "2.e1 - .5", "007 + max", "round(mean, 1)", "trunc(2.7) ^ 2 ^ 3", "-sgn(-0.0) + abs(-E)", "min - 2*std", "3 +", "mean + foo"]:
        stats = {"mean": 2.3, "min": 0.1, "max": 9.0, "std": 0.3}
        check("fx_parser.evaluate_stack", outcome(O.fx.eval_fx, expr, stats), outcome(R.fx.eval_fx, expr, stats), desc=expr)


def main():
    t0 = time.time()
    only = sys.argv[1:]
    drivers = [
        run_qartod_compare, run_aggregate, run_gross_range, run_spike, run_climatology, run_collect,
        run_store, run_context_config, run_call_run, run_dicts, run_fx,
    ]
    for d in drivers:
        if only and not any(o in d.__name__ for o in only):
            continue
        t = time.time()
        d()
        print(f"{d.__name__}: {time.time() - t:.1f}s")
    print("cases per function (exceptions in brackets):")
    for k, v in COUNTS.items():
        print(f"  {k}: {v} [{EXC[k]}]")
        if not only:
            assert v >= 2000, (k, v)
    print(f"mismatches: {len(FAILS)}   ({time.time() - t0:.0f}s)")
    by = defaultdict(int)
    for f in FAILS:
        by[f[0]] += 1
    if by:
        print(dict(by))
    return 1 if FAILS else 0


if __name__ == "__main__":
    sys.exit(main())
