"""Equivalence check: refactored ioos_qc (worktree) vs ORIGINAL modules taken from the worktree's HEAD commit."""
import copy
import importlib.util
import logging
import os
import random
import subprocess
import sys
import tempfile
import time
import warnings

import numpy as np
import pandas as pd

HERE = os.path.dirname(os.path.abspath(__file__))
N_CASES = int(os.environ.get("EQUIV_N", "3000"))
warnings.simplefilter("ignore")
logging.disable(logging.CRITICAL)


def load_original():
    tmp = tempfile.mkdtemp(prefix="ioosqc_orig_")
    pkg = os.path.join(tmp, "ioos_qc_orig")
    os.makedirs(pkg)
    names = subprocess.check_output(["git", "-C", HERE, "ls-tree", "--name-only", "HEAD", "ioos_qc/"], text=True).split()
    for n in names:
        if not n.endswith(".py"):
            continue
        src = subprocess.check_output(["git", "-C", HERE, "show", f"HEAD:{n}"], text=True)
        src = src.replace("from ioos_qc.", "from ioos_qc_orig.").replace("from ioos_qc ", "from ioos_qc_orig ")
        src = src.replace("import ioos_qc.", "import ioos_qc_orig.")
        with open(os.path.join(pkg, os.path.basename(n)), "w") as f:
            f.write(src)
    spec = importlib.util.spec_from_file_location(
        "ioos_qc_orig", os.path.join(pkg, "__init__.py"), submodule_search_locations=[pkg],
    )
    mod = importlib.util.module_from_spec(spec)
    sys.modules["ioos_qc_orig"] = mod
    spec.loader.exec_module(mod)
    import ioos_qc_orig.argo
    import ioos_qc_orig.axds
    import ioos_qc_orig.qartod

    return mod


ORIG = load_original()
import ioos_qc.argo as new_argo  # noqa: E402
import ioos_qc.axds as new_axds  # noqa: E402
import ioos_qc.qartod as new_q  # noqa: E402

assert os.path.abspath(new_q.__file__).startswith(HERE), new_q.__file__
old_q, old_argo, old_axds = ORIG.qartod, ORIG.argo, ORIG.axds
assert "ioosqc_orig_" in old_q.__file__

R = random.Random(12345)

# ---------------------------------------------------------------- comparison


def same(a, b):
    if type(a) is not type(b):
        return False
    if isinstance(a, np.ma.MaskedArray):
        if a.dtype != b.dtype or a.shape != b.shape:
            return False
        if (a._mask is np.ma.nomask) != (b._mask is np.ma.nomask):
            return False
        if not np.array_equal(np.ma.getmaskarray(a), np.ma.getmaskarray(b)):
            return False
        if not same(np.asarray(a.data), np.asarray(b.data)):
            return False
        fa, fb = np.asarray(a.fill_value), np.asarray(b.fill_value)
        return fa.dtype == fb.dtype and np.array_equal(fa, fb, equal_nan=fa.dtype.kind == "f")
    if isinstance(a, np.ndarray):
        if a.dtype != b.dtype or a.shape != b.shape:
            return False
        if a.dtype.kind in "fc":
            return np.array_equal(a, b, equal_nan=True)
        if a.dtype.kind in "mM":
            return np.array_equal(a.view("i8"), b.view("i8"))
        if a.dtype.kind == "O":
            return all(same(x, y) for x, y in zip(a.ravel().tolist(), b.ravel().tolist()))
        return np.array_equal(a, b)
    if isinstance(a, (pd.Series, pd.Index, pd.DataFrame)):
        return a.equals(b)
    if isinstance(a, (list, tuple)):
        return len(a) == len(b) and all(same(x, y) for x, y in zip(a, b))
    if isinstance(a, dict):
        return a.keys() == b.keys() and all(same(a[k], b[k]) for k in a)
    if isinstance(a, np.generic):
        return same(np.asarray(a), np.asarray(b))
    if isinstance(a, float):
        return a == b or (a != a and b != b)
    if a is pd.NaT:
        return b is pd.NaT
    try:
        return bool(a == b)
    except Exception:
        return a is b


def run(fn, args, kwargs):
    try:
        with warnings.catch_warnings():
            warnings.simplefilter("ignore")
            with np.errstate(all="ignore"):
                return ("ok", fn(*args, **kwargs))
    except BaseException as e:  # noqa: BLE001
        if isinstance(e, (KeyboardInterrupt, SystemExit, MemoryError)):
            raise
        return ("exc", type(e).__name__ if not type(e).__module__.startswith("numpy") else type(e).__mro__[-3].__name__, str(e))


FAILS = []
STATS = {}


def check(name, f_old, f_new, args, kwargs=None):
    kwargs = kwargs or {}
    a_old, k_old = copy.deepcopy((args, kwargs))
    a_new, k_new = copy.deepcopy((args, kwargs))
    r_old = run(f_old, a_old, k_old)
    r_new = run(f_new, a_new, k_new)
    st = STATS.setdefault(name, [0, 0, 0])
    st[0] += 1
    st[1 if r_old[0] == "ok" else 2] += 1
    ok = r_old[0] == r_new[0]
    if ok and r_old[0] == "ok":
        ok = same(r_old[1], r_new[1])
    elif ok:
        ok = r_old[1] == r_new[1] and r_old[2] == r_new[2]
    if ok:
        # no new mutation of arguments
        ok = same(a_old, a_new) and same(k_old, k_new)
    if not ok:
        FAILS.append((name, args, kwargs, r_old, r_new))
        if len(FAILS) <= 15:
            print("MISMATCH", name, "\n  args=", args, kwargs, "\n  old=", r_old, "\n  new=", r_new)


# ---------------------------------------------------------------- generators
NUMS = [0.0, 1.0, 2.0, 3.0, -1.0, 5.0, 10.0, 0.1, 0.3, 2.3, 0.2, 0.7, 1.1, -0.1, 1e308, -1e308, 1e-300, 100.0, 30.0, 2.5]
ODD = [np.nan, np.inf, -np.inf]


def series(n=None, allow_nd=True, none_ok=True):
    if n is None:
        n = R.choice([0, 1, 2, 3, 3, 4, 5, 6, 7, 8])
    p_odd = R.choice([0, 0.15, 0.4, 1.0])
    vals = [R.choice(ODD) if R.random() < p_odd else R.choice(NUMS + [float(R.randint(-3, 12))]) for _ in range(n)]
    k = R.random()
    if k < 0.25:
        return [None if (none_ok and v != v and R.random() < 0.5) else v for v in vals]
    if k < 0.32:
        return tuple(vals)
    arr = np.array(vals, dtype=np.float64)
    if k < 0.40:
        fin = np.where(np.isfinite(arr) & (np.abs(arr) < 1e6), arr, 1).astype(R.choice(["int64", "int32", "uint8", "int16"]))
        return fin
    if k < 0.47:
        return arr.astype(">f8")
    if k < 0.54:
        big = np.empty(2 * n + 1, dtype=np.float64)
        big[:] = -7.0
        big[: 2 * n : 2] = arr
        return big[: 2 * n : 2]
    if k < 0.62:
        m = np.array([R.random() < 0.3 for _ in range(n)], dtype=bool)
        return np.ma.array(arr, mask=m if R.random() < 0.8 else np.ma.nomask)
    if k < 0.66:
        return arr.astype("float32")
    if k < 0.72 and allow_nd and n in (4, 6, 8):
        a2 = arr.reshape(2, n // 2)
        return np.asfortranarray(a2) if R.random() < 0.5 else a2
    if k < 0.75 and allow_nd and n in (4, 6, 8):
        return arr.reshape(n // 2, 2).T
    if k < 0.78:
        return pd.Series(arr)
    return arr


BASE = 1_600_000_000


def times(n, shape=None):
    step = R.choice([1, 10, 60, 600, 3600, 86400, 7 * 86400])
    secs = [BASE + i * step for i in range(n)]
    mode = R.random()
    if mode < 0.2 and n:
        R.shuffle(secs)
    elif mode < 0.35 and n > 1:
        secs = [R.choice(secs) for _ in range(n)]
    elif mode < 0.45 and n:
        secs = [s + R.choice([0, 0, 1, 59, 3601]) for s in secs]
    k = R.random()
    if k < 0.15:
        out = list(secs)
    elif k < 0.22:
        out = np.array(secs, dtype=R.choice(["int32", "uint32", "int64", "float64"]))
    else:
        unit = R.choice(["s", "s", "m", "h", "D", "ns", "ms"])
        arr = np.array(secs, dtype="datetime64[s]").astype(f"datetime64[{unit}]")
        if n and R.random() < 0.25:
            arr = arr.copy()
            for _ in range(R.choice([1, 1, 2, n])):
                arr[R.randrange(n)] = np.datetime64("NaT")
        k2 = R.random()
        if k2 < 0.15:
            out = pd.DatetimeIndex(arr).tz_localize("UTC")
        elif k2 < 0.25:
            out = pd.Series(pd.DatetimeIndex(arr).tz_localize("UTC"))
        elif k2 < 0.33:
            out = pd.DatetimeIndex(arr)
        elif k2 < 0.38:
            out = [pd.Timestamp(x).to_pydatetime() if not pd.isna(x) else pd.NaT for x in pd.DatetimeIndex(arr)]
            if any(x is pd.NaT for x in out):
                out = arr
        else:
            out = arr
    if shape is not None and isinstance(out, np.ndarray) and len(shape) > 1 and out.size == int(np.prod(shape)):
        out = out.reshape(shape)
    return out


def thr(none_ok=True, big=True):
    k = R.random()
    if none_ok and k < 0.12:
        return None
    v = R.choice([0, 1, 2, 3, 0.1, 0.3, 2.3, 0.5, 5, 10, 100, 1e308, -1, 0.0, 2.0, 1e-300] + ([60, 3600, 86400, 172800, 1e5] if big else []))
    k = R.random()
    if k < 0.1:
        return np.float64(v)
    if k < 0.16:
        return np.array(v)
    if k < 0.2:
        return np.float32(v)
    if k < 0.24 and float(v).is_integer() and abs(v) < 1e6:
        return np.int32(v)
    if k < 0.26:
        return np.array([v])
    if k < 0.275:
        return "a"
    if k < 0.285:
        return np.inf
    if k < 0.295:
        return np.nan
    return v


def span2(none_ok=False):
    k = R.random()
    if none_ok and k < 0.15:
        return None
    a, b = thr(False, False), thr(False, False)
    k = R.random()
    if k < 0.6:
        return (a, b)
    if k < 0.8:
        return [a, b]
    if k < 0.85:
        return (a,)
    if k < 0.9:
        return (a, b, a)
    if k < 0.94:
        return np.array([1.0, 5.0])
    if k < 0.97:
        return (None, b)
    return "ab"


def shape_of(x):
    try:
        return np.shape(x)
    except Exception:
        return None


# ---------------------------------------------------------------- per-function drivers
def t_gross():
    inp = series()
    kw = {}
    fs = span2()
    if R.random() < 0.7:
        if R.random() < 0.5 and isinstance(fs, (tuple, list)) and len(fs) == 2 and all(isinstance(x, (int, float)) for x in fs):
            lo, hi = sorted(fs)
            kw["suspect_span"] = R.choice([(lo, hi), (hi, lo), (lo + 0.1, hi), [lo, hi - 0.1], (lo, lo), (np.float64(lo), np.array(hi))])
        else:
            kw["suspect_span"] = span2(True)
    if R.random() < 0.1:
        check("gross_range_test", old_q.gross_range_test, new_q.gross_range_test, (), dict(inp=inp, fail_span=fs, **kw))
    else:
        check("gross_range_test", old_q.gross_range_test, new_q.gross_range_test, (inp, fs), kw)


def t_spike():
    inp = series()
    kw = {}
    if R.random() < 0.85:
        kw["suspect_threshold"] = thr()
    if R.random() < 0.85:
        kw["fail_threshold"] = thr()
    if R.random() < 0.7:
        kw["method"] = R.choice(["average", "differential", "differential", "median", None, "Average", np.array(["average"]), 1])
    check("spike_test", old_q.spike_test, new_q.spike_test, (inp,), kw)


def t_roc():
    inp = series()
    n = int(np.size(inp)) if R.random() < 0.93 else R.choice([0, 1, 2, 3])
    sh = shape_of(inp) if R.random() < 0.7 else None
    tin = times(n, sh)
    check("rate_of_change_test", old_q.rate_of_change_test, new_q.rate_of_change_test, (inp, tin, thr(R.random() < 0.3)))


def t_flat():
    inp = series()
    n = int(np.size(inp)) if R.random() < 0.93 else R.choice([0, 1, 2, 3, 5])
    tin = times(n, shape_of(inp) if R.random() < 0.5 else None)

    def secs():
        v = R.choice([0, 1, 2, 10, 20, 60, 120, 600, 3600, 7200, 86400, 172800, 604800, 3 * 604800, 1e9, -60, 1.5, "60", "a", None])
        k = R.random()
        if k < 0.1 and isinstance(v, (int, float)):
            return np.float64(v)
        if k < 0.15 and isinstance(v, (int, float)):
            return np.array(v)
        return v

    kw = {}
    if R.random() < 0.8:
        kw["tolerance"] = thr(R.random() < 0.1, False)
    check("flat_line_test", old_q.flat_line_test, new_q.flat_line_test, (inp, tin, secs(), secs()), kw)


def t_att():
    inp = series()
    n = int(np.size(inp)) if R.random() < 0.93 else R.choice([0, 1, 2, 3])
    tin = times(n, shape_of(inp) if R.random() < 0.5 else None)
    kw = {}
    if R.random() < 0.6:
        kw["test_period"] = R.choice([None, 0, 1, 10, 60, 3600, 86400, 172800, 1e6, 1.5, np.int64(60), "60", -5])
    if R.random() < 0.4:
        kw["min_obs"] = R.choice([None, 0, 1, 2, 3, 100, np.int64(2), 1.0])
    if R.random() < 0.4:
        kw["min_period"] = R.choice([None, 0, 1, 60, 3600, 86400, 1e7])
    if R.random() < 0.6:
        kw["check_type"] = R.choice(["std", "range", "range", "var", None])
    check("attenuated_signal_test", old_q.attenuated_signal_test, new_q.attenuated_signal_test, (inp, tin, thr(R.random() < 0.1, False), thr(R.random() < 0.1, False)), kw)


def t_dens():
    inp = series()
    n = int(np.size(inp))
    z = series(n if R.random() < 0.9 else None)
    if R.random() < 0.5 and isinstance(inp, np.ndarray) and inp.ndim == 2 and np.size(z) == n:
        z = np.asarray(z, dtype=float).reshape(inp.shape) if not isinstance(z, (list, tuple, pd.Series)) else z
    kw = {}
    if R.random() < 0.85:
        kw["suspect_threshold"] = thr(True, False) if R.random() < 0.7 else R.choice([-0.1, -1, -0.3, 0, np.float64(-2.3), np.array(-1)])
    if R.random() < 0.85:
        kw["fail_threshold"] = thr(True, False) if R.random() < 0.7 else R.choice([-0.1, -1, -2.3, -1e308, np.float64(-0.3), np.array(-3)])
    check("density_inversion_test", old_q.density_inversion_test, new_q.density_inversion_test, (inp, z), kw)


def lonlat(n):
    lon = [R.choice([-180, 180, -180.1, 180.1, 0, 10.5, -70.3, 179.9, np.nan, np.inf, 1e308, -75, -74.9, 20]) for _ in range(n)]
    lat = [R.choice([-90, 90, -90.1, 90.1, 0, 10.5, 41.3, 89.9, np.nan, -np.inf, 45, 45.1, -20]) for _ in range(n)]
    return lon, lat


def pack(vals, form, shape=None):
    arr = np.array(vals, dtype=np.float64)
    if form == 0:
        return [None if (v != v and R.random() < 0.5) else v for v in vals]
    if form == 1 and shape:
        return np.asfortranarray(arr.reshape(shape))
    if form == 2 and shape:
        return arr.reshape(shape)
    if form == 3 and shape:
        return arr.reshape(shape[::-1]).T
    if form == 4:
        return arr.astype(">f8")
    if form == 5:
        return np.ma.array(arr, mask=[R.random() < 0.3 for _ in vals])
    if form == 6:
        big = np.zeros(2 * len(vals) + 2)
        big[1 : 1 + 2 * len(vals) : 2] = arr
        return big[1 : 1 + 2 * len(vals) : 2]
    if form == 7 and shape and len(vals) == 8:
        return arr.reshape(2, 2, 2)
    return arr


def t_loc():
    n = R.choice([0, 1, 2, 3, 4, 4, 5, 6, 6, 8])
    lon, lat = lonlat(n)
    shape = {4: (2, 2), 6: (2, 3), 8: (2, 4)}.get(n)
    f1 = R.randrange(9)
    f2 = f1 if R.random() < 0.7 else R.randrange(9)
    lon_a, lat_a = pack(lon, f1, shape), pack(lat, f2, shape)
    if R.random() < 0.06:
        lat_a = pack(lat[:-1] if n else [1.0], 8)
    kw = {}
    if R.random() < 0.6:
        kw["bbox"] = R.choice([
            (-180, -90, 180, 90), [-80, 40, -70, 50], (-75, 41.3, 10.5, 45), (0, 0, 0, 0), (10, 10, -10, -10),
            (np.float64(-180), np.array(-90), np.int32(180), 90.0), None, (1, 2, 3), "abcd", (-180, -90, 180, None),
            (-180.1, -90.1, 180.1, 90.1), (np.nan, -90, 180, 90), (-np.inf, -np.inf, np.inf, np.inf), (np.array([-75]), 0, 20, 45),
        ])
    if R.random() < 0.5:
        kw["range_max"] = R.choice([None, 0, 1, 1000, 1e5, 1e6, 2e7, np.float64(5e5), np.array(1e6), 1e308, "a", np.nan])
    check("location_test", old_q.location_test, new_q.location_test, (lon_a, lat_a), kw)


def t_speed():
    n = R.choice([0, 1, 2, 3, 4, 4, 5, 6])
    lon, lat = lonlat(n)
    shape = {4: (2, 2), 6: (2, 3)}.get(n) if R.random() < 0.3 else None
    f1 = R.choice([0, 4, 5, 6, 8, 8]) if shape is None else R.choice([1, 2, 3])
    lon_a, lat_a = pack(lon, f1, shape), pack(lat, f1 if R.random() < 0.8 else 8, shape)
    tin = times(n if R.random() < 0.93 else R.choice([0, 1, 2]), shape)
    check("speed_test", old_argo.speed_test, new_argo.speed_test, (lon_a, lat_a, tin, thr(R.random() < 0.2), thr(R.random() < 0.2)))


def t_press():
    inp = series(none_ok=R.random() < 0.3)
    if R.random() < 0.3:
        n = R.choice([0, 1, 2, 3, 5, 8])
        inp = np.array([R.choice([0, 1, 2, 3, 250, 255, 10, 5]) for _ in range(n)], dtype=R.choice(["uint8", "int8", "uint32", "int64", "float32"]))
    if R.random() < 0.05:
        inp = R.choice([5.0, np.array(3.0), "abc", None])
    check("pressure_increasing_test", old_argo.pressure_increasing_test, new_argo.pressure_increasing_test, (inp,))


def t_valid():
    k = R.random()
    kw = {}
    if k < 0.55:
        inp = series(none_ok=R.random() < 0.3)
        vs = span2()
        if R.random() < 0.3:
            kw["dtype"] = R.choice([np.float64, np.float32, np.int32, "int64", None, np.dtype("float64"), np.uint8])
    elif k < 0.85:
        n = R.choice([0, 1, 2, 3, 5, 8])
        inp = times(n)
        a, b = np.datetime64(BASE, "s"), np.datetime64(BASE + R.choice([0, 60, 3600, 86400, 10**6]), "s")
        vs = R.choice([(a, b), (b, a), [a, np.datetime64("NaT")], (None, b), (a, None), (str(a), str(b)), (pd.Timestamp(a), pd.Timestamp(b)), (BASE, BASE + 100)])
        if R.random() < 0.5:
            kw["dtype"] = R.choice(["datetime64[s]", "datetime64[ns]", np.dtype("datetime64[m]"), None])
    else:
        inp = R.choice([["a", "b"], [1, "x"], [None, None], [], [[1, 2], [3, 4]], ["2020-01-01", "2020-01-02"], [{}]])
        vs = R.choice([(1, 2), ("a", "b"), ("2020-01-01", "2020-01-03"), (None, None)])
        if R.random() < 0.3:
            kw["dtype"] = R.choice([str, object, np.float64, "datetime64[D]"])
    if R.random() < 0.6:
        kw["start_inclusive"] = R.choice([True, False, 1, None, np.True_])
    if R.random() < 0.6:
        kw["end_inclusive"] = R.choice([True, False, 1, None, np.True_])
    check("valid_range_test", old_axds.valid_range_test, new_axds.valid_range_test, (inp, vs), kw)


def t_compare():
    n = R.choice([0, 1, 2, 3, 5, 8])
    k = R.choice([0, 1, 1, 2, 3, 4])
    vecs = []
    for _ in range(k):
        m = n if R.random() < 0.93 else R.choice([0, 1, 2])
        vals = [R.choice([1, 2, 3, 4, 9, 9, 1, 0, 5]) for _ in range(m)]
        f = R.random()
        if f < 0.4:
            v = np.array(vals, dtype=R.choice(["uint8", "int64", "float64", "int8"]))
        elif f < 0.7:
            v = np.ma.array(np.array(vals, dtype="uint8"), mask=[R.random() < 0.3 for _ in vals] if R.random() < 0.7 else np.ma.nomask)
        elif f < 0.8:
            v = np.array([float("nan") if R.random() < 0.3 else x for x in vals], dtype=float)
        elif f < 0.85:
            v = pd.Series(vals, dtype="int64")
        elif f < 0.9:
            v = np.array(vals, dtype="uint8").reshape(1, -1)
        elif f < 0.93:
            v = np.array(4)
        elif f < 0.96:
            v = np.array([str(x) for x in vals])
        else:
            v = vals
        vecs.append(v)
    if R.random() < 0.3:
        vecs = tuple(vecs)
    check("qartod_compare", old_q.qartod_compare, new_q.qartod_compare, (vecs,))


PERIODS = [None, None, None, "month", "dayofyear", "week", "weekofyear", "dayofweek", "quarter", "year", "hour", "bogus", 5]


def clim_member():
    period = R.choice(PERIODS)
    if period is None:
        a = R.choice(["2020-09-13", "2020-09-14", "2020-09-13T12:26:40", "2020-10-01", "1999-01-01", "9999-12-31", "2262-01-01", np.datetime64(BASE, "s"), pd.Timestamp(BASE + 3600, unit="s"), "2020-09-13 08:26:40"])
        b = R.choice(["2020-09-14", "2020-09-20", "2020-12-31", "9999-12-31", "2021-01-01", "1999-01-01", np.datetime64(BASE + 86400, "s"), "junk"])
        tspan = (a, b) if R.random() < 0.8 else (b, a)
    else:
        tspan = R.choice([(0, 400), (1, 12), (9, 9), (37, 38), (38, 60), (3, 4), (2020, 2021), (0, 2), (12, 1), (250, 270), (8.5, 10.5)])
    m = {"tspan": tspan, "vspan": R.choice([(0, 10), (1, 3), (0.1, 2.3), (3, 1), (-1e308, 1e308), (2, 2), [0.3, 5], (np.float64(1), np.array(5)), (1,), (None, 3)])}
    if period is not None or R.random() < 0.2:
        m["period"] = period
    if R.random() < 0.5:
        m["fspan"] = R.choice([(-1, 30), (0, 10), (0.3, 2.3), None, (-100, 100), (5, 5), (np.float64(0), 5), "ab"])
    if R.random() < 0.45:
        m["zspan"] = R.choice([(0, 10), (0, 100), (10, 0), None, (5, 5), (0.1, 2.3), (-1e308, 1e308), (np.float64(0), np.array(3))])
    return m


def clim_case(direct):
    inp = series()
    n = int(np.size(inp))
    sh = shape_of(inp)
    tin = times(n if R.random() < 0.95 else R.choice([0, 1, 3]), sh if R.random() < 0.6 else None)
    zk = R.random()
    if zk < 0.5:
        z = series(n, allow_nd=False)
        if sh is not None and len(sh) == 2 and isinstance(z, np.ndarray) and R.random() < 0.7:
            z = np.asarray(z).reshape(sh)
    elif zk < 0.7:
        z = [np.nan] * n
    elif zk < 0.8:
        z = [None] * n
    elif zk < 0.9:
        z = series()
    else:
        z = np.ma.masked_all(n)
    members = [clim_member() for _ in range(R.choice([0, 1, 1, 2, 2, 3, 4]))]
    if len(members) > 1 and R.random() < 0.3:
        members.append(dict(members[0]))
    return members, inp, tin, z


def t_clim():
    members, inp, tin, z = clim_case(False)
    if R.random() < 0.5:
        os.environ["TZ"] = R.choice(["EST5EDT", "UTC"])
        time.tzset()

    def mk(q):
        def f(members, inp, tin, z):
            if f.as_object:
                c = q.ClimatologyConfig()
                for m in members:
                    c.add(**m)
                cfg = c
            else:
                cfg = members
            r1 = q.climatology_test(cfg, inp, tin, z)
            if f.twice and members:
                if isinstance(cfg, list):
                    cfg[0]["vspan"] = (0, 1)
                    cfg.append({"tspan": (0, 400), "vspan": (2, 3), "period": "dayofyear"})
                r2 = q.climatology_test(cfg, inp, tin, z)
                return [r1, r2, len(cfg.members) if hasattr(cfg, "members") else len(cfg)]
            return r1

        return f

    fo, fn = mk(old_q), mk(new_q)
    fo.as_object = fn.as_object = R.random() < 0.4
    fo.twice = fn.twice = R.random() < 0.2
    check("climatology_test", fo, fn, (members, inp, tin, z))


def t_clim_check():
    members, inp, tin, z = clim_case(True)

    def mk(q):
        def f(members, inp, tin, z):
            c = q.ClimatologyConfig()
            for m in members:
                try:
                    c.add(**m)
                except (ValueError, TypeError, AssertionError):
                    pass
            ti = pd.DatetimeIndex(q.mapdates(tin).flatten())
            a = np.ma.masked_invalid(np.array(inp).astype(np.float64)).flatten()
            zz = np.ma.masked_invalid(np.array(z).astype(np.float64)).flatten()
            if f.variant == 1:
                a = np.ma.array(a.data, mask=np.ma.nomask)
            elif f.variant == 2:
                zz = np.ma.array(zz.data)
            return c.check(ti, a, zz)

        return f

    fo, fn = mk(old_q), mk(new_q)
    fo.variant = fn.variant = R.choice([0, 0, 0, 1, 2])
    check("ClimatologyConfig.check", fo, fn, (members, inp, tin, z))


DRIVERS = [t_gross, t_spike, t_roc, t_flat, t_att, t_dens, t_loc, t_speed, t_press, t_valid, t_compare, t_clim, t_clim_check]


def fixed_cases():
    q0, q1 = old_q, new_q
    a = np.array([1.0, np.inf, 3.0, 100.0, 5.0, np.nan, -np.inf, 2.0])
    for f in ("gross_range_test",):
        check(f, getattr(q0, f), getattr(q1, f), (a, (0, 10)), {"suspect_span": (1, 5)})
        check(f, getattr(q0, f), getattr(q1, f), ([], ("a", "b")), {})
        check(f, getattr(q0, f), getattr(q1, f), ([np.nan, None], (1, 0)), {"suspect_span": (-1, 0)})
        check(f, getattr(q0, f), getattr(q1, f), (a, (np.array([[0]]), np.array([[10]]))), {})
    for m in ("average", "differential"):
        check("spike_test", q0.spike_test, q1.spike_test, (a,), {"suspect_threshold": 1, "fail_threshold": 50, "method": m})
        check("spike_test", q0.spike_test, q1.spike_test, ([1, 1e308, -1e308, 1e308, 2],), {"suspect_threshold": 0.1, "fail_threshold": 2.3, "method": m})
    t = np.array([0, 10, 10, 30, 20, 50, 60, 70], dtype="int64")
    check("rate_of_change_test", q0.rate_of_change_test, q1.rate_of_change_test, (a, t, 0.1))
    check("rate_of_change_test", q0.rate_of_change_test, q1.rate_of_change_test, ([], [], None))
    check("flat_line_test", q0.flat_line_test, q1.flat_line_test, ([1, 1, 1, 1, 1, np.nan, 1, 1], t * 0 + np.arange(8) * 10, 20, 40), {"tolerance": 0.1})
    check("flat_line_test", q0.flat_line_test, q1.flat_line_test, ([np.nan] * 5, list(range(5)), "x", 4), {})
    check("density_inversion_test", q0.density_inversion_test, q1.density_inversion_test, (a, a[::-1].copy()), {"suspect_threshold": -0.1, "fail_threshold": -1})
    check("density_inversion_test", q0.density_inversion_test, q1.density_inversion_test, (a.reshape(1, 8)[:, :2], a.reshape(1, 8)[:, 2:4]), {"suspect_threshold": 1e9})
    check("density_inversion_test", q0.density_inversion_test, q1.density_inversion_test, (a.reshape(8, 1), a.reshape(8, 1)), {"suspect_threshold": 1e9})


def main():
    t0 = time.time()
    fixed_cases()
    for d in DRIVERS:
        for _ in range(N_CASES):
            d()
    os.environ["TZ"] = "UTC"
    time.tzset()
    for k, (n, ok, exc) in sorted(STATS.items()):
        print(f"{k:28s} cases={n:5d} ok={ok:5d} raised={exc:5d}")
    print(f"mismatches: {len(FAILS)}  ({time.time() - t0:.0f}s)")
    return 1 if FAILS else 0


if __name__ == "__main__":
    sys.exit(main())
