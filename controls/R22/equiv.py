"""Equivalence check: refactored worktree modules vs. the originals taken from the worktree's HEAD commit."""
import copy
import dataclasses
import importlib
import importlib.util
import logging
import os
import random
import re
import subprocess
import sys
import tempfile
import time
import warnings
from pathlib import Path

import numpy as np
import pandas as pd

warnings.simplefilter("ignore")
HERE = Path(__file__).resolve().parent
N = int(os.environ.get("EQUIV_N", "2000"))

# ---------------------------------------------------------------- originals from HEAD
tmp = Path(tempfile.mkdtemp(prefix="orig_"))
pkg = tmp / "ioos_qc_orig"
pkg.mkdir()
files = subprocess.check_output(["git", "-C", str(HERE), "ls-tree", "-r", "--name-only", "HEAD", "ioos_qc"], text=True).split()
for f in files:
    rel = Path(f).relative_to("ioos_qc")
    blob = subprocess.check_output(["git", "-C", str(HERE), "show", f"HEAD:{f}"])
    dest = pkg / rel
    dest.parent.mkdir(parents=True, exist_ok=True)
    if f.endswith(".py"):
        blob = re.sub(rb"\bioos_qc\b", b"ioos_qc_orig", blob)
    dest.write_bytes(blob)
spec = importlib.util.spec_from_file_location("ioos_qc_orig", pkg / "__init__.py", submodule_search_locations=[str(pkg)])
mod = importlib.util.module_from_spec(spec)
sys.modules["ioos_qc_orig"] = mod
spec.loader.exec_module(mod)


class Side:
    def __init__(self, name):
        self.name = name
        for sub in ("streams", "stores", "qartod", "utils", "results", "config"):
            setattr(self, sub, importlib.import_module(f"{name}.{sub}"))


NEW, OLD = Side("ioos_qc"), Side("ioos_qc_orig")
assert str(HERE) in NEW.streams.__file__, NEW.streams.__file__
assert str(tmp) in OLD.streams.__file__

# ---------------------------------------------------------------- log capture
RECORDS = []


class Grab(logging.Handler):
    def emit(self, record):
        RECORDS.append((record.levelname, record.getMessage()))


for lname in ("ioos_qc", "ioos_qc_orig"):
    lg = logging.getLogger(lname)
    lg.setLevel(logging.DEBUG)
    lg.addHandler(Grab())
    lg.propagate = False


# ---------------------------------------------------------------- normalisation
def norm(x):  # noqa: C901, PLR0911, PLR0912
    if isinstance(x, np.ma.MaskedArray):
        m = np.ma.getmaskarray(x)
        d = np.array(x.data, copy=True)
        if d.shape == m.shape and m.any():
            d[m] = np.zeros((), dtype=d.dtype)
        return ("ma", norm(d), m.tobytes(), x.mask is np.ma.nomask, type(x).__name__)
    if isinstance(x, np.ndarray):
        body = repr(x.tolist()) if x.dtype == object else np.ascontiguousarray(x).tobytes()
        return ("nd", x.dtype.str, x.shape, body, type(x).__name__)
    if isinstance(x, np.generic):
        return ("sc", type(x).__name__, repr(x))
    if isinstance(x, pd.DataFrame):
        return ("df", norm(x.index), norm(x.columns), [norm(x.iloc[:, i]) for i in range(x.shape[1])])
    if isinstance(x, pd.Series):
        return ("se", str(x.dtype), repr(x.name), norm(x.index), repr(x.tolist()))
    if isinstance(x, pd.Index):
        return ("ix", type(x).__name__, str(x.dtype), repr(x.tolist()), repr(x.names))
    if dataclasses.is_dataclass(x) and not isinstance(x, type):
        return ("dc", type(x).__name__, [(f.name, norm(getattr(x, f.name))) for f in dataclasses.fields(x)])
    if isinstance(x, tuple) and hasattr(x, "_fields"):
        return ("nt", type(x).__name__, [(f, norm(getattr(x, f))) for f in x._fields])
    if isinstance(x, (list, tuple)):
        return (type(x).__name__, [norm(v) for v in x])
    if isinstance(x, dict):
        return ("dict", [(norm(k), norm(v)) for k, v in x.items()])
    if callable(x) and hasattr(x, "__name__"):
        return ("fn", x.__name__)
    return ("obj", type(x).__name__, repr(x).replace("ioos_qc_orig", "ioos_qc"))


def outcome(fn):
    del RECORDS[:]
    try:
        res = ("ok", norm(fn()))
    except Exception as e:  # noqa: BLE001
        res = ("exc", type(e).__name__)
    return res, list(RECORDS)


COUNTS = {}
OKS = {}
FAILS = []


def compare(label, make):
    """make(side) -> result; run for both sides, compare."""
    COUNTS[label] = COUNTS.get(label, 0) + 1
    a = outcome(lambda: make(NEW))
    b = outcome(lambda: make(OLD))
    if a != b:
        FAILS.append(label)
        if len(FAILS) <= 5:
            print("MISMATCH", label, "\n NEW", str(a)[:1500], "\n OLD", str(b)[:1500])
    OKS[label] = OKS.get(label, 0) + (a[0][0] == "ok")
    return a[0][0]


# ---------------------------------------------------------------- generators
R = random.Random(20261003)
SPECIAL = [0.1, 0.3, 2.3, 1e308, -1e308, np.inf, -np.inf, np.nan, 0.0, 5.0, 10.0, -3.5, 7, 2.0]
BASE = np.datetime64("2020-03-01T00:00:00")


def values(n, allow_none=False):
    out = []
    for _ in range(n):
        v = R.choice(SPECIAL) if R.random() < 0.5 else round(R.uniform(-5, 15), 1)
        if allow_none and R.random() < 0.1:
            v = None
        out.append(v)
    return out


def stamps(n, unit="ns"):
    kind = R.choice(["sorted", "unsorted", "dup", "nat", "far"])
    secs = [R.randrange(0, 400000) for _ in range(n)]
    if kind == "sorted":
        secs.sort()
    if kind == "dup" and n > 1:
        secs[1] = secs[0]
    arr = (BASE + np.array(secs, dtype="timedelta64[s]")).astype(f"datetime64[{unit}]") if n else np.array([], dtype=f"datetime64[{unit}]")
    if kind == "nat" and n:
        arr[R.randrange(n)] = np.datetime64("NaT")
    if kind == "far" and n:
        arr[R.randrange(n)] = np.datetime64("2200-01-01").astype(arr.dtype)
    return arr


def window():
    k = R.random()
    if k < 0.35:
        return None
    opts = [None, "2020-03-02", "2020-03-03T12:00:00", pd.Timestamp("2020-03-02T06:00"), "2020-03-01", "9999-01-01", ""]
    w = {}
    if R.random() < 0.8:
        w["starting"] = R.choice(opts)
    if R.random() < 0.8:
        w["ending"] = R.choice(opts)
    return w


def qartod_tests():
    t = {}
    if R.random() < 0.8:
        t["gross_range_test"] = {"suspect_span": R.choice([[1, 11], [0.1, 2.3], (np.float64(0.3), np.array(10.0))]), "fail_span": R.choice([[0, 12], [-1e308, 1e308], [0.1, 10]])}
    if R.random() < 0.4:
        t["flat_line_test"] = {"tolerance": R.choice([0.1, 1]), "suspect_threshold": R.choice([3600, 86400]), "fail_threshold": R.choice([7200, 172800])}
    if R.random() < 0.3:
        t["spike_test"] = {"suspect_threshold": 0.3, "fail_threshold": R.choice([2.3, np.float32(3)])}
    if R.random() < 0.25:
        t["attenuated_signal_test"] = {"suspect_threshold": 0.3, "fail_threshold": 0.1, "test_period": R.choice([None, 3600, 86400]), "min_obs": R.choice([None, 2])}
    if R.random() < 0.25:
        t["climatology_test"] = {"config": [{"tspan": R.choice([[0, 53], [10, 12]]), "period": R.choice(["week", "dayofyear", "month"]), "vspan": [1, 11], "zspan": R.choice([None, [0, 10]]), "fspan": R.choice([None, [0, 12]])}]}
    if not t:
        t["gross_range_test"] = {"suspect_span": [1, 11], "fail_span": [0, 12]}
    return t


def make_config(stream_ids):
    ctxs = []
    for _ in range(R.choice([1, 1, 2, 3])):
        ctx = {"streams": {}}
        w = window()
        if w is not None:
            ctx["window"] = w
        if R.random() < 0.15:
            ctx["region"] = None
        for sid in R.sample(stream_ids, R.randrange(1, len(stream_ids) + 1)):
            ctx["streams"][sid] = {"qartod": qartod_tests()}
        ctxs.append(ctx)
    if R.random() < 0.3 and len(ctxs) > 1:
        ctxs[1] = copy.deepcopy(ctxs[0])  # duplicated tests / contexts
    return {"contexts": ctxs}


def tz_env():
    if R.random() < 0.2:
        os.environ["TZ"] = "EST5EDT"
    else:
        os.environ["TZ"] = "UTC"
    time.tzset()


COLS = ["v1", "v [1]*?", 0, 1.5, ("a", "b"), "salt"]


def gen_df():
    n = R.randrange(0, 9)
    cols = R.sample(COLS, R.randrange(1, 4))
    data = {}
    tname = R.choice(["time", "t", 7])
    if R.random() < 0.85:
        ts = pd.Series(stamps(n, R.choice(["ns", "s", "m", "h", "D"])))
        if R.random() < 0.2:
            ts = ts.dt.tz_localize("UTC")
        data[tname] = ts.to_numpy() if ts.dt.tz is None else ts
    for c in cols:
        data[c] = pd.Series(values(n, allow_none=True), dtype="float64").to_numpy()
    for ax in ("z", "lat", "lon", "depth"):
        if R.random() < 0.5:
            data[ax] = np.array([R.choice([0.0, 5.0, np.nan, 20.0]) for _ in range(n)], dtype="float64")
    df = pd.DataFrame(data)
    ik = R.random()
    if ik < 0.2 and n:
        df.index = [R.randrange(0, 3) for _ in range(n)]
    elif ik < 0.35 and n:
        df.index = [f"r{i}" for i in R.sample(range(n), n)]
    elif ik < 0.45 and n:
        df = df.iloc[R.sample(range(n), n)]
    kw = {}
    if tname != "time" or R.random() < 0.3:
        kw["time"] = tname
    if "depth" in data and R.random() < 0.6:
        kw["z"] = "depth"
    if R.random() < 0.1:
        kw["lat"] = "lon"
    if R.random() < 0.05:
        kw["geom"] = R.choice(["v1", 0, ""])
    sids = [*cols] + (["missing"] if R.random() < 0.3 else [])
    sids = [s for s in sids if isinstance(s, (str, int, float))]  # yaml-like keys
    return df, kw, sids or ["missing"]


def pandas_results(side, df, kw, cfg):
    st = side.streams.PandasStream(df.copy(), **kw)
    attrs = dict(vars(st))
    attrs.pop("df")
    config = side.config.Config(copy.deepcopy(cfg))
    return attrs, list(st.run(config))


def gen_numpy():
    n = R.randrange(0, 9)
    kind = R.choice(["nd", "nd", "dict", "dict", "none", "list", "ma", "2d", "swapped", "strided", "emptydict"])
    base = np.array(values(n), dtype="float64")
    sids = ["a"]
    if kind == "nd":
        inp = base
    elif kind == "ma":
        inp = np.ma.masked_invalid(base)
    elif kind == "swapped":
        inp = base.astype(">f8")
    elif kind == "strided":
        inp = np.array(values(2 * n), dtype="float64")[::2]
    elif kind == "2d":
        inp = np.array(values(n * 2), dtype="float64").reshape(n, 2)
    elif kind == "dict":
        inp = {"a": base, "b [x]": np.array(values(n))}
        sids = ["a", "b [x]", "zz"]
    elif kind == "emptydict":
        inp = {}
    elif kind == "list":
        inp = list(base)
    else:
        inp = None
    kw = {}
    if R.random() < 0.8:
        tk = R.choice(["dt", "dt", "int32", "uint32", "float", "index_tz"])
        ts = stamps(n, R.choice(["ns", "s", "m", "h", "D"]))
        if tk == "dt":
            kw["time"] = ts
        elif tk == "index_tz":
            kw["time"] = pd.DatetimeIndex(ts).tz_localize("UTC")
        else:
            secs = np.array([R.randrange(1583020800, 1583420800) for _ in range(n)])
            kw["time"] = secs.astype({"int32": "int32", "uint32": "uint32", "float": "float64"}[tk])
    for ax in ("z", "lat", "lon"):
        if R.random() < 0.5:
            kw[ax] = np.array([R.choice([0.0, 5.0, np.nan]) for _ in range(n)])
    cfg = make_config(sids)
    if inp is None and R.random() < 0.7:
        for c in cfg["contexts"]:
            for s in c["streams"].values():
                s["qartod"] = {"gross_range_test": {"suspect_span": [1, 11], "fail_span": [0, 12], "inp": values(n)}}
    if R.random() < 0.2:
        for c in cfg["contexts"]:
            c["region"] = R.choice([None, "something"]) if False else None
    return inp, kw, cfg


def numpy_results(side, inp, kw, cfg):
    st = side.streams.NumpyStream(copy.deepcopy(inp), **copy.deepcopy(kw))
    config = side.config.Config(copy.deepcopy(cfg))
    return list(st.run(config))


def swap_fn(side, names):
    if names is None:
        return None
    return [getattr(side.qartod, n[3:]) if isinstance(n, str) and n.startswith("fn:") else n for n in names]


def store_case(side, results_maker, opts):
    results = results_maker(side)
    store = side.stores.PandasStore(results, opts.get("axes"))
    out = [[side.stores.column_from_collected_result(c) for c in store.collected_results]]
    if opts["agg"]:
        store.compute_aggregate(**opts["aggkw"])
        out.append(store.collected_results[-1])
    df = store.save(write_data=opts["write_data"], write_axes=opts["write_axes"], include=swap_fn(side, opts["include"]), exclude=swap_fn(side, opts["exclude"]))
    out.append(df)
    out.append(store.collected_results)
    return out


NAMES = ["gross_range_test", "flat_line_test", "v1", "a", "v [1]*?", "b [x]", "rollup", "fn:gross_range_test", "fn:spike_test", "fn:aggregate", "nothing", None, 0]


def gen_store_opts():
    def lst():
        k = R.random()
        if k < 0.5:
            return None
        return R.sample(NAMES, R.randrange(0, 4))
    opts = {"write_data": R.choice([True, False, 1]), "write_axes": R.choice([True, True, False, 1]), "include": lst(), "exclude": lst(), "agg": R.random() < 0.4, "aggkw": R.choice([{}, {"name": "qc_rollup"}, {"name": "9 bad*"}])}
    if R.random() < 0.2:
        opts["axes"] = R.choice([{"t": "t", "z": "depth", "x": "lon", "y": "lat"}, {"t": "time", "z": "z", "y": "lat"}, {"t": 0, "z": "z", "x": "x", "y": "time"}])
    return opts


# ---------------------------------------------------------------- run the comparisons
t0 = time.time()
for i in range(N):
    tz_env()
    df, kw, sids = gen_df()
    cfg = make_config(sids)
    compare("PandasStream", lambda s: pandas_results(s, df, kw, cfg))
    opts = gen_store_opts()
    compare("PandasStore", lambda s: store_case(s, lambda ss: pandas_results(ss, df, kw, cfg)[1], opts))

# invalid constructor arguments
for i in range(200):
    bad = R.choice([[1], np.array([1, 2]), {"a": 1}, np.array([]), 0, ""])
    df, kw, sids = gen_df()
    compare("PandasStream", lambda s: vars(s.streams.PandasStream(df, **{R.choice(["time", "z", "geom"]): bad})))

for i in range(N):
    tz_env()
    inp, kw, cfg = gen_numpy()
    compare("NumpyStream", lambda s: numpy_results(s, inp, kw, cfg))
    if i % 2 == 0:
        opts = gen_store_opts()
        compare("PandasStore", lambda s: store_case(s, lambda ss: numpy_results(ss, inp, kw, cfg), opts))


# column_from_collected_result on synthetic results
PARTS = [None, "", "a", "9x", "_u", "v [1]*?", "temp.max", 0, 5, "qartod", "é"]
for i in range(N):
    sid, pk, te = R.choice(PARTS), R.choice(PARTS), R.choice(PARTS)
    compare("column_from_collected_result", lambda s: s.stores.column_from_collected_result(s.results.CollectedResult(sid, pk, te, None)))


# collect_results_list on synthetic inputs
def gen_context_results():
    n = R.randrange(0, 7)
    items = []
    for _ in range(R.randrange(0, 5)):
        k = R.random()
        if k < 0.2:
            items.append(("call", R.choice(["qartod", "x"]), R.choice(["t1", "t2"]), np.array(values(n))))
            continue
        sel = np.array([R.random() < R.choice([0.5, 1.0]) for _ in range(n)], dtype=bool)
        m = int(sel.sum())
        tests = [(R.choice(["qartod", "p"]), R.choice(["t1", "t2", "t1"]), np.ma.array([R.choice([1, 2, 3, 4, 9]) for _ in range(m)], dtype=R.choice(["uint8", "int64"]))) for _ in range(R.randrange(0, 4))]
        extra = {
            "data": R.choice([np.array(values(m)), np.ma.masked_invalid(np.array(values(m), dtype="float64")), None if R.random() < 0.1 else np.array(values(m))]),
            "tinp": stamps(m) if R.random() < 0.8 else np.array([], dtype="datetime64[ns]"),
            "zinp": np.array(values(m)) if R.random() < 0.5 else np.array([], dtype="float64"),
            "lat": np.array(values(m)) if R.random() < 0.5 else np.array([], dtype="float64"),
            "lon": np.array(values(m)) if R.random() < 0.5 else np.array([], dtype="float64"),
        }
        items.append(("ctx", R.choice(["s1", "s2", None]), tests, sel, extra))
    return items


def build_results(side, items):
    out = []
    for it in copy.deepcopy(items):
        if it[0] == "call":
            out.append(side.results.CallResult(it[1], it[2], side.qartod.gross_range_test, it[3]))
        else:
            _, sid, tests, sel, extra = it
            crs = [side.results.CallResult(p, t, side.qartod.spike_test, r) for p, t, r in tests]
            out.append(side.results.ContextResult(sid, crs, sel, **extra))
    return out


for i in range(N):
    items = gen_context_results()

    def run_collect(s):
        res = build_results(s, items)
        got = s.results.collect_results_list(res)
        return got, res  # the inputs too: no new mutation

    compare("collect_results_list", run_collect)


# mapdates
def gen_dates():
    n = R.randrange(0, 9)
    unit = R.choice(["ns", "s", "m", "h", "D", "us", "ms"])
    ts = stamps(n, unit)
    k = R.choice(["np", "series", "series_tz", "index", "index_tz", "list_dt", "epoch_int", "epoch_int32", "epoch_uint32", "epoch_float", "strings", "objects", "scalar", "bad", "period", "list_ts", "2d", "series_float"])
    secs = [R.randrange(0, 2000000000) for _ in range(n)]
    if k == "np":
        return ts
    if k == "2d":
        return stamps(n * 2, unit).reshape(n, 2)
    if k == "series":
        return pd.Series(ts, index=R.sample(range(n), n))
    if k == "series_tz":
        return pd.Series(ts).dt.tz_localize(R.choice(["UTC", "US/Eastern"]), ambiguous="NaT", nonexistent="NaT")
    if k == "index":
        return pd.DatetimeIndex(ts)
    if k == "index_tz":
        return pd.DatetimeIndex(ts).tz_localize("UTC")
    if k == "list_dt":
        return [pd.Timestamp(t).to_pydatetime() for t in ts if not np.isnat(t)]
    if k == "list_ts":
        return [pd.Timestamp(t) for t in ts]
    if k == "epoch_int":
        return secs
    if k == "epoch_int32":
        return np.array(secs, dtype="int32")
    if k == "epoch_uint32":
        return np.array(secs, dtype="uint32")
    if k == "epoch_float":
        return np.array(secs, dtype="float64") + R.choice([0, 0.5, np.nan])
    if k == "series_float":
        return pd.Series(secs, dtype="float64")
    if k == "strings":
        return [str(t) for t in ts]
    if k == "objects":
        return np.array([pd.Timestamp(t) for t in ts], dtype=object)
    if k == "scalar":
        return R.choice([0, 1583020800, "2020-01-01", pd.Timestamp("2020-01-01"), np.datetime64("2020-01-01"), None, pd.Timestamp("2020-01-01", tz="UTC")])
    if k == "period":
        return pd.period_range("2020-01", periods=n, freq="M")
    return R.choice([["abc"], object(), {"a": 1}, [None, 1], [1e30], "nope"])


for i in range(N + 500):
    tz_env()
    d = gen_dates()
    compare("mapdates", lambda s: s.utils.mapdates(copy.deepcopy(d)))


# ClimatologyConfig.check
PERIODS = [None, None, "week", "weekofyear", "dayofyear", "month", "dayofweek", "quarter", "year", "hour", "bogus"]


def gen_clim():
    n = R.randrange(0, 9)
    members = []
    for _ in range(R.randrange(0, 4)):
        period = R.choice(PERIODS)
        if period is None:
            lo, hi = sorted([R.choice(["2020-03-01", "2020-03-02T06:00", "2020-03-04", "9999-01-01", "1999-01-01"]) for _ in range(2)])
            tspan = (lo, hi)
        else:
            tspan = tuple(sorted([R.randrange(0, 60), R.randrange(0, 400)]))
        m = {"tspan": tspan, "period": period, "vspan": tuple(sorted(R.sample([0.1, 0.3, 2.3, 5, 10, 1e308, -1e308], 2)))}
        if R.random() < 0.5:
            m["fspan"] = tuple(sorted(R.sample([-1, 0, 0.1, 12, 2.3, np.inf], 2)))
        if R.random() < 0.5:
            m["zspan"] = tuple(sorted(R.sample([0, 5, 10, 20.0], 2)))
        members.append(m)
    tinp = pd.DatetimeIndex(stamps(n, R.choice(["ns", "s"])))
    if R.random() < 0.1:
        tinp = tinp.tz_localize("UTC")
    inp = np.ma.masked_invalid(np.array(values(n), dtype="float64"))
    if R.random() < 0.2 and n:
        inp[R.randrange(n)] = np.ma.masked
    zk = R.choice(["vals", "vals", "allmask", "empty", "nan"])
    if zk == "vals":
        zinp = np.ma.masked_invalid(np.array([R.choice([0.0, 5.0, 10.0, 7.5, np.nan, 30.0]) for _ in range(n)], dtype="float64"))
    elif zk == "allmask":
        zinp = np.ma.masked_all(n, dtype="float64")
    elif zk == "nan":
        zinp = np.ma.masked_invalid(np.full(n, np.nan))
    else:
        zinp = np.ma.masked_invalid(np.array([], dtype="float64"))
    return members, tinp, inp, zinp


def run_clim(side, members, tinp, inp, zinp):
    cc = side.qartod.ClimatologyConfig()
    for m in copy.deepcopy(members):
        if m["period"] == "bogus":
            sp = side.qartod.span
            cc._members.append(cc.mem(sp(*m["tspan"]), None, sp(*m["vspan"]), None, "bogus"))
        else:
            cc.add(**m)
    a, b, c = tinp.copy(), inp.copy(), zinp.copy()
    res = cc.check(a, b, c)
    return res, a, b, c


for i in range(N + 500):
    members, tinp, inp, zinp = gen_clim()
    compare("ClimatologyConfig.check", lambda s: run_clim(s, members, tinp, inp, zinp))


# attenuated_signal_test
def gen_att():
    n = R.randrange(0, 9)
    shape2d = R.random() < 0.1
    inp = values(n, allow_none=True)
    tk = R.choice(["dt", "dt", "int32", "uint32", "list"])
    ts = stamps(n, R.choice(["ns", "s", "m", "h", "D"]))
    if tk in ("int32", "uint32"):
        ts = np.array(sorted(R.randrange(1583020800, 1583420800) for _ in range(n)), dtype=tk)
    elif tk == "list":
        ts = [pd.Timestamp(t) for t in ts]
    if R.random() < 0.6 and tk == "dt":
        ts = np.sort(ts)
    kw = {
        "suspect_threshold": R.choice([0.3, 2.3, np.float64(0.1), np.array(5.0), 1e308, 0]),
        "fail_threshold": R.choice([0.1, 0.3, np.float32(0.1), np.array(0.1), 0, -1]),
        "test_period": R.choice([None, 0, 3600, 86400, 172800.0, 90, np.int64(7200), "x"]),
        "min_obs": R.choice([None, None, 1, 2, 5, 0]),
        "min_period": R.choice([None, None, 3600, 60, 86400]),
        "check_type": R.choice(["std", "range", "std", "range", "other"]),
    }
    if shape2d and n % 2 == 0 and tk == "dt":
        inp = np.array(inp, dtype="float64").reshape(-1, 2) if n else inp
        ts = ts.reshape(-1, 2) if n else ts
    return inp, ts, kw


for i in range(N + 500):
    inp, ts, kw = gen_att()
    compare("attenuated_signal_test", lambda s: s.qartod.attenuated_signal_test(copy.deepcopy(inp), copy.deepcopy(ts), **copy.deepcopy(kw)))

print("non-raising:", OKS)
print("cases:", COUNTS, "seconds:", round(time.time() - t0, 1))
low = {k: v for k, v in COUNTS.items() if v < 2000 and N >= 2000}
if low:
    print("too few cases:", low)
    sys.exit(2)
if FAILS:
    print("FAILED:", len(FAILS), sorted(set(FAILS)))
    sys.exit(1)
print("all equivalent")
