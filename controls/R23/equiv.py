#!/usr/bin/env python
"""Differential check: refactored ioos_qc (this worktree) vs the HEAD commit of the same worktree.

Run as:  PYTHONPATH=<worktree> /venv/bin/python equiv.py [cases-per-function]
"""
import datetime as pydt
import importlib
import logging
import os
import random
import re
import subprocess
import sys
import tempfile
import time
import warnings
from collections import OrderedDict
from functools import partial
from pathlib import Path

import numpy as np
import pandas as pd

warnings.simplefilter("ignore")
HERE = Path(__file__).resolve().parent
N_CASES = int(sys.argv[1]) if len(sys.argv) > 1 else 2000
ORIG = "ioos_qc_orig"


def load_original():
    tmp = Path(tempfile.mkdtemp(prefix="orig_pkg_"))
    names = subprocess.run(
        ["git", "-C", str(HERE), "ls-tree", "-r", "--name-only", "HEAD", "ioos_qc"],
        check=True, capture_output=True, text=True,
    ).stdout.split()
    for name in names:
        blob = subprocess.run(["git", "-C", str(HERE), "show", f"HEAD:{name}"], check=True, capture_output=True).stdout
        target = tmp / ORIG / Path(name).relative_to("ioos_qc")
        target.parent.mkdir(parents=True, exist_ok=True)
        if name.endswith(".py"):
            blob = re.sub(rb"\bioos_qc\b", ORIG.encode(), blob)
        target.write_bytes(blob)
    spec = importlib.util.spec_from_file_location(
        ORIG, tmp / ORIG / "__init__.py", submodule_search_locations=[str(tmp / ORIG)],
    )
    mod = importlib.util.module_from_spec(spec)
    sys.modules[ORIG] = mod
    spec.loader.exec_module(mod)
    return mod


import importlib.util  # noqa: E402

load_original()
import ioos_qc  # noqa: E402

assert Path(ioos_qc.__file__).resolve().parent == HERE / "ioos_qc", ioos_qc.__file__

NEW = {m: importlib.import_module(f"ioos_qc.{m}") for m in (
    "qartod", "argo", "utils", "config", "streams", "config_creator.fx_parser", "config_creator.config_creator")}
OLD = {m: importlib.import_module(f"{ORIG}.{m}") for m in NEW}
assert "orig_pkg_" in OLD["qartod"].__file__ and OLD["qartod"].great_circle_distance is OLD["utils"].great_circle_distance


# ------------------------------------------------------------------ log capture
class Capture(logging.Handler):
    def __init__(self):
        super().__init__(level=logging.DEBUG)
        self.records = []

    def emit(self, record):
        self.records.append((record.levelname, record.getMessage().replace(ORIG, "ioos_qc")))


CAP = Capture()
for lname in ("ioos_qc", ORIG):
    lg = logging.getLogger(lname)
    lg.addHandler(CAP)
    lg.setLevel(logging.DEBUG)
    lg.propagate = False


# ------------------------------------------------------------------ normalisation
def norm(o, depth=0):  # noqa: C901, PLR0911, PLR0912
    if depth > 12:
        return "<deep>"
    if isinstance(o, np.ma.MaskedArray):
        return ("ma", type(o).__name__, str(o.dtype), o.shape,
                np.ma.getmaskarray(o).tobytes(), norm(np.asarray(o.data), depth + 1), repr(o.fill_value))
    if isinstance(o, np.ndarray):
        if o.dtype == object:
            return ("nd", "object", o.shape, [norm(x, depth + 1) for x in o.ravel().tolist()])
        return ("nd", str(o.dtype), o.shape, np.ascontiguousarray(o).tobytes())
    if isinstance(o, np.generic):
        return ("npscalar", str(o.dtype), np.asarray(o).tobytes())
    if isinstance(o, (pd.Series, pd.Index)):
        return (type(o).__name__, str(o.dtype), [norm(x, depth + 1) for x in o.tolist()],
                norm(list(o.index), depth + 1) if isinstance(o, pd.Series) else None)
    if isinstance(o, pd.Timestamp):
        return ("ts", repr(o))
    if isinstance(o, float):
        return ("f", repr(o))
    if isinstance(o, (bool, int, str, bytes, type(None))):
        return (type(o).__name__, o)
    if isinstance(o, tuple) and hasattr(o, "_fields"):
        return ("nt", type(o).__name__, o._fields, [norm(x, depth + 1) for x in o])
    if isinstance(o, (list, tuple)):
        return (type(o).__name__, [norm(x, depth + 1) for x in o])
    if isinstance(o, dict):
        return (type(o).__name__, [(norm(k, depth + 1), norm(v, depth + 1)) for k, v in o.items()])
    if isinstance(o, partial):
        return ("partial", norm(o.func, depth + 1), norm(o.args, depth + 1), norm(o.keywords, depth + 1))
    cname = type(o).__name__
    if cname == "ClimatologyConfig":
        return ("ClimatologyConfig", norm(o._members, depth + 1))
    if cname == "Call":
        return ("Call", norm(o.stream_id, depth + 1), norm(o.call, depth + 1), norm(o.context, depth + 1),
                norm(o.attrs, depth + 1))
    if cname == "Context":
        return ("Context", norm(o.window, depth + 1), getattr(o.region, "wkt", None), norm(o.attrs, depth + 1))
    if cname == "ContextResult":
        return ("ContextResult", norm(o.stream_id, depth + 1), norm(o.results, depth + 1),
                norm(o.subset_indexes, depth + 1), norm(o.data, depth + 1), norm(o.tinp, depth + 1),
                norm(o.zinp, depth + 1), norm(o.lat, depth + 1), norm(o.lon, depth + 1))
    if cname == "CallResult":
        return ("CallResult", o.package.replace(ORIG + ".", "").replace("ioos_qc.", ""), o.test,
                norm(o.function, depth + 1), norm(o.results, depth + 1))
    if callable(o) and hasattr(o, "__module__") and hasattr(o, "__name__"):
        return ("fn", str(o.__module__).replace(ORIG, "ioos_qc"), o.__name__)
    return ("repr", re.sub(r" at 0x[0-9a-f]+", "", repr(o)).replace(ORIG, "ioos_qc"))


def outcome(fn, *a, **k):
    CAP.records = []
    try:
        with warnings.catch_warnings():
            warnings.simplefilter("ignore")
            with np.errstate(all="ignore"):
                res = fn(*a, **k)
        out = ("ok", norm(res))
    except RecursionError:
        raise
    except BaseException as e:  # noqa: BLE001
        msg = re.sub(r" at 0x[0-9a-f]+", "", str(e)).replace(ORIG, "ioos_qc")
        ctx = type(e.__context__).__name__
        out = ("exc", type(e).__name__, msg, ctx)
    return out, list(CAP.records)


FAILS = []
COUNTS = {}
OKS = {}
LOGS = {}


def tally(name, result):
    (out, logs) = result
    if out[0] == "ok":
        OKS[name] = OKS.get(name, 0) + 1
    if logs:
        LOGS[name] = LOGS.get(name, 0) + 1


def check(name, make_args, new_fn, old_fn, post=None):
    """make_args() -> (args, kwargs) builder called twice with the same seed so both sides get fresh objects."""
    COUNTS[name] = COUNTS.get(name, 0) + 1
    seed = random.getrandbits(48)
    random.seed(seed)
    a1, k1 = make_args()
    random.seed(seed)
    a2, k2 = make_args()
    before = norm((a1, k1))
    random.seed(seed + 7)
    r_new = outcome(new_fn, *a1, **k1)
    random.seed(seed + 7)
    r_old = outcome(old_fn, *a2, **k2)
    tally(name, r_old)
    extra_new = post(a1, k1, "new") if post else None
    extra_old = post(a2, k2, "old") if post else None
    mut_new, mut_old = norm((a1, k1)), norm((a2, k2))
    random.seed(seed + 1)
    if r_new != r_old or mut_new != mut_old or extra_new != extra_old:
        if len(FAILS) < 12:
            FAILS.append((name, a1, k1, r_new, r_old, mut_new == mut_old, extra_new == extra_old))
    return r_new, before


# ------------------------------------------------------------------ generators
R = random.Random()
SPECIAL = [float("nan"), None, float("inf"), float("-inf"), 0.0, -0.0, 0.1, 0.3, 2.3, 0.1 + 0.2, 1e308, -1e308,
           1, 2, 3, 10, -5, 2.5, 1e-12, 5e-324, 180, -180, 90, -90, 180.0000001, 45.5]


def rvalue():
    c = random.random()
    if c < 0.45:
        return random.choice(SPECIAL)
    if c < 0.7:
        return random.randint(-5, 5)
    if c < 0.85:
        return round(random.uniform(-3, 3), 1)
    return random.uniform(-200, 200)


def rseries(n=None, allow_none=True):
    n = random.randint(0, 8) if n is None else n
    vals = [rvalue() for _ in range(n)]
    if random.random() < 0.5:
        base = random.choice(vals) if vals else 1
        vals = [base if random.random() < 0.6 else v for v in vals]
    if not allow_none:
        vals = [float("nan") if v is None else v for v in vals]
    return vals


def as_container(vals):
    """Wrap a list of numbers into one of many container types."""
    c = random.random()
    clean = [np.nan if v is None else v for v in vals]
    if c < 0.2:
        return list(vals)
    if c < 0.4:
        return np.array(clean, dtype=float)
    if c < 0.5:
        arr = np.array(clean, dtype=float)
        mask = [random.random() < 0.25 for _ in clean]
        return np.ma.MaskedArray(arr, mask=mask)
    if c < 0.6:
        return np.array(clean, dtype=float).astype(">f8")
    if c < 0.7:
        wide = np.zeros(len(clean) * 2, dtype=float)
        wide[::2] = clean
        return wide[::2]
    if c < 0.78:
        return pd.Series(clean, dtype=float)
    if c < 0.86:
        try:
            return np.array([int(v) for v in clean], dtype=random.choice(["int32", "int64", "uint8", "float32"]))
        except (ValueError, OverflowError):
            return np.array(clean, dtype="float32")
    if c < 0.93:
        return tuple(vals)
    return np.array(clean, dtype=float)[::-1]


def nd_container(vals):
    arr = np.array([np.nan if v is None else v for v in vals], dtype=float)
    n = arr.size
    c = random.random()
    if n and n % 2 == 0 and c < 0.4:
        arr = arr.reshape(2, n // 2)
        if random.random() < 0.5:
            arr = np.asfortranarray(arr)
        elif random.random() < 0.5:
            arr = arr.T.copy().T
    elif c < 0.5:
        arr = arr.reshape(1, n)
    elif c < 0.6:
        arr = arr.reshape(n, 1, order="F")
    if random.random() < 0.2:
        arr = np.ma.MaskedArray(arr, mask=np.random.RandomState(random.randint(0, 9999)).rand(*arr.shape) < 0.3)
    return arr


BASE_T = np.datetime64("2020-01-01T00:00:00")


def rtimes(n, shape=None):  # noqa: C901, PLR0912
    """n stamps in one of many representations."""
    step = random.choice([1, 1, 10, 60, 600, 3600, 86400, 90000, 0.5])
    offs = [i * step for i in range(n)]
    c = random.random()
    if c < 0.25:
        random.shuffle(offs)
    elif c < 0.4 and n > 1:
        offs[random.randrange(n)] = offs[random.randrange(n)]
    elif c < 0.5:
        offs = [o + random.choice([0, 0, 3, 7200]) for o in offs]
    kind = random.random()
    ns = [BASE_T.astype("datetime64[ns]") + np.timedelta64(int(o * 1e9), "ns") for o in offs]
    arr = np.array(ns, dtype="datetime64[ns]")
    if random.random() < 0.2 and n:
        arr[random.randrange(n)] = np.datetime64("NaT")
    if shape is not None:
        arr = arr.reshape(shape)
    if kind < 0.3:
        return arr
    if kind < 0.45:
        return arr.astype(f"datetime64[{random.choice(['s', 'm', 'h', 'D', 'ms', 'us'])}]")
    if kind < 0.55 and arr.ndim == 1:
        return pd.DatetimeIndex(arr, tz="UTC") if random.random() < 0.5 else pd.Series(pd.DatetimeIndex(arr, tz="UTC"))
    if kind < 0.62 and arr.ndim == 1:
        return pd.DatetimeIndex(arr) if random.random() < 0.5 else pd.Series(arr)
    if kind < 0.8:
        secs = [int(1577836800 + o) for o in offs]
        dt = random.choice(["int32", "uint32", "int64", "float64", None])
        out = np.array(secs, dtype=dt) if dt else secs
        if shape is not None and dt:
            out = out.reshape(shape)
        return out
    if kind < 0.88 and arr.ndim == 1:
        return [pydt.datetime(2020, 1, 1) + pydt.timedelta(seconds=o) for o in offs]
    if kind < 0.93 and arr.ndim == 1:
        return [str(x) for x in arr.astype("datetime64[s]")]
    return arr


def rthreshold(allow_none=True):
    c = random.random()
    v = random.choice([0, 1, 2, 3, 5, 10, 60, 100, 0.1, 0.3, 2.3, 0.5, 86400, 172800, 90000, -1, 1e308, 1e-9, 25.0])
    if c < 0.08 and allow_none:
        return None
    if c < 0.2:
        return np.float64(v)
    if c < 0.3:
        return np.array(v)
    if c < 0.38:
        return np.int64(int(v)) if float(v).is_integer() and abs(v) < 1e18 else np.float32(v)
    if c < 0.42:
        return random.choice([float("nan"), float("inf"), "3", [1, 2]])
    return v


# ------------------------------------------------------------------ case builders
def args_flat_line():
    n = random.choice([0, 1, 2, 3, 4, 5, 6, 7, 8, 8])
    vals = rseries(n)
    nt = n if random.random() < 0.92 else max(0, n + random.choice([-1, 1]))
    inp = as_container(vals) if random.random() < 0.85 else nd_container(vals)
    kw = {}
    if random.random() < 0.7:
        kw["tolerance"] = random.choice([0, 0.1, 0.3, 1, 2.3, np.float64(0.1), np.array(1.0), 1e308, None, float("nan"), -1])
    return (inp, rtimes(nt), rthreshold(), rthreshold()), kw


def args_attenuated():
    n = random.choice([0, 1, 2, 3, 4, 5, 6, 7, 8])
    vals = rseries(n)
    nt = n if random.random() < 0.93 else max(0, n + random.choice([-1, 1]))
    kw = {}
    if random.random() < 0.6:
        kw["test_period"] = random.choice([None, 0, 1, 5, 60, 3600, 86400, 172800, 0.5, np.int64(60), np.float64(30.0), "60", -5])
    if random.random() < 0.4:
        kw["min_obs"] = random.choice([None, 0, 1, 2, 3, np.int64(2), 2.0, 100])
    if random.random() < 0.4:
        kw["min_period"] = random.choice([None, 0, 1, 10, 60, 86400, np.float64(20), np.array(60)])
    if random.random() < 0.6:
        kw["check_type"] = random.choice(["std", "range", "range", "bad", None, ["std"], np.str_("std")])
    if random.random() < 0.05:
        kw["extra"] = 1
    return (as_container(vals), rtimes(nt), rthreshold(), rthreshold()), kw


def args_location():
    n = random.choice([0, 1, 2, 3, 4, 5, 6, 8])
    lon = [random.choice([random.uniform(-181, 181), -180, 180, 0.1, None, float("nan"), float("inf"), 1e308, -70.5]) for _ in range(n)]
    lat = [random.choice([random.uniform(-91, 91), -90, 90, 0.3, None, float("nan"), float("-inf"), 41.25]) for _ in range(n)]
    if random.random() < 0.07 and n:
        lat = lat[:-1]
    seed = random.getrandbits(32)
    random.seed(seed)
    lon_c = nd_container(lon) if random.random() < 0.6 else as_container(lon)
    random.seed(seed)
    lat_c = nd_container(lat) if random.random() < 0.6 else as_container(lat)
    kw = {}
    if random.random() < 0.6:
        kw["bbox"] = random.choice([
            (-180, -90, 180, 90), [-80, 40, -70, 60], (0.1, 0.3, 2.3, 45.5), None, (1, 2, 3), "abcd",
            (np.float64(-80), np.array(40), np.int32(-70), 60.0), (10, 10, -10, -10), (float("nan"), 0, 1, 2),
            (-1e308, -1e308, 1e308, 1e308), np.array([-180, -90, 180, 90]), (-70.5, 41.25, -70.5, 41.25),
        ])
    if random.random() < 0.5:
        kw["range_max"] = random.choice([None, 0, 1, 1000, 1e5, 1e7, np.float64(5e5), np.array(2e6), float("nan"), float("inf")])
    return (lon_c, lat_c), kw


PERIODS = [None, None, "month", "week", "weekofyear", "dayofyear", "dayofweek", "quarter", "year", "hour", "bogus", 5, "tz"]


def rmember():
    period = random.choice(PERIODS)
    if period is None:
        lo = random.choice(["2019-12-31", "2020-01-01", "2020-01-01T00:00:05", np.datetime64("2020-01-01T00:00:10"),
                            pd.Timestamp("2020-01-02"), pydt.datetime(2020, 1, 1, 0, 1), "1900-01-01", 0, "junk", None])
        hi = random.choice(["2020-01-01T00:00:30", "2020-01-03", "2021-01-01", "9999-12-31", "2262-04-11",
                            pydt.datetime(2020, 1, 1, 1), pd.Timestamp("2020-01-01T00:10:00"), "2019-01-01", 1e9])
        tspan = random.choice([(lo, hi), [hi, lo], (lo, hi, hi), [lo]])
    else:
        a, b = random.choice([(0, 12), (1, 1), (1, 53), (0, 366), (2, 4), (2020, 2020), (6, 1), (0.5, 3.5)])
        tspan = random.choice([(a, b), [b, a], (a,), "ab"])
    d = {"tspan": tspan,
         "vspan": random.choice([(0, 10), [10, 0], (0.1, 2.3), (-1e308, 1e308), (1, 1), (np.float64(0.3), np.array(3)), (1,), None, (float("nan"), 1)])}
    if random.random() < 0.5:
        d["fspan"] = random.choice([None, (-5, 15), [15, -5], (0, 2.3), (0.1, 0.3), (1, 2, 3), (float("-inf"), float("inf"))])
    if random.random() < 0.5:
        d["zspan"] = random.choice([None, (0, 10), [100, 0], (0.1, 0.3), (5, 5), (0,), (0, 1e308)])
    if period is not None or random.random() < 0.3:
        d["period"] = period
    if random.random() < 0.03:
        d["bogus"] = 1
    return d


def args_climatology(mod):
    def build():
        n = random.choice([0, 1, 2, 3, 4, 5, 6, 8])
        members = [rmember() for _ in range(random.choice([0, 1, 1, 2, 3]))]
        c = random.random()
        if c < 0.25:
            cfg = mod.ClimatologyConfig()
            for m in members:
                try:
                    cfg.add(**m)
                except Exception:  # noqa: BLE001, S110
                    pass
        elif c < 0.3:
            cfg = tuple(members)
        elif c < 0.33:
            cfg = random.choice([None, 5, "x", {"tspan": (0, 1)}])
        else:
            cfg = members
        vals = rseries(n)
        shape = None
        inp = as_container(vals)
        if n and n % 2 == 0 and random.random() < 0.2:
            shape = (2, n // 2)
            inp = np.array([np.nan if v is None else v for v in vals], dtype=float).reshape(shape)
        nz = n if random.random() < 0.9 else random.choice([0, max(0, n - 1)])
        z = [random.choice([0, 0.1, 0.3, 5, 10, 50, None, float("nan"), 100, float("inf")]) for _ in range(nz)]
        if random.random() < 0.25:
            z = [None] * nz
        zc = as_container(z)
        if shape and nz == n:
            zc = np.array([np.nan if v is None else v for v in z], dtype=float).reshape(shape)
        nt = n if random.random() < 0.93 else max(0, n - 1)
        t = rtimes(nt, shape if (shape and nt == n) else None)
        return (cfg, inp, t, zc), {}
    return build


def args_density():
    n = random.choice([0, 1, 2, 3, 4, 5, 6, 7, 8])
    vals = [random.choice([1024, 1024.1, 1024.3, 1025, 1023.9, None, float("nan"), float("inf"), 1e308, 1024.1 + 0.2, 3]) for _ in range(n)]
    z = [random.choice([0, 1, 2, 3, 5, 10, 10, None, float("nan"), 0.1, 0.3, float("-inf")]) for _ in range(n)]
    if random.random() < 0.5:
        z = sorted([x for x in z if x is not None and x == x]) + [x for x in z if x is None or x != x]
    if random.random() < 0.07 and n:
        z = z[:-1]
    c = random.random()
    if c < 0.15 and n and n % 2 == 0 and len(z) == n:
        i = np.array([np.nan if v is None else v for v in vals], dtype=float).reshape(2, -1)
        zz = np.array([np.nan if v is None else v for v in z], dtype=float).reshape(2, -1)
    else:
        i, zz = as_container(vals), as_container(z)
    kw = {}
    if random.random() < 0.8:
        kw["suspect_threshold"] = random.choice([None, 0, -0.1, 0.1, 0.3, -0.3, 0.03, np.float64(-0.1), np.array(0.2), 1e308, float("nan"), "a"])
    if random.random() < 0.8:
        kw["fail_threshold"] = random.choice([None, 0, -0.1, -0.3, -1, 0.1, np.float32(-0.5), np.array(-0.2), -1e308, float("inf")])
    return (i, zz), kw


def args_speed():
    n = random.choice([0, 1, 2, 3, 4, 5, 6, 8])
    lon = [random.choice([random.uniform(-180, 180), -70.5, -70.4, 0.1, None, float("nan"), float("inf"), 180, -180]) for _ in range(n)]
    lat = [random.choice([random.uniform(-90, 90), 41.25, 41.3, 0.3, None, float("nan"), 90, -90]) for _ in range(n)]
    nt = n if random.random() < 0.92 else max(0, n - 1)
    shape = (2, n // 2) if (n and n % 2 == 0 and random.random() < 0.2) else None
    if shape and nt == n:
        lon_c = np.array([np.nan if v is None else v for v in lon], dtype=float).reshape(shape)
        lat_c = np.array([np.nan if v is None else v for v in lat], dtype=float).reshape(shape)
        t = rtimes(nt, shape)
    else:
        lon_c, lat_c, t = as_container(lon), as_container(lat), rtimes(nt)
    return (lon_c, lat_c, t, rthreshold(), rthreshold()), {}


def args_gcd():
    n = random.choice([0, 1, 2, 3, 4, 5, 8])
    lon = [random.choice([random.uniform(-180, 180), -70.5, 0.1, float("nan"), 180, -180, 1e308]) for _ in range(n)]
    lat = [random.choice([random.uniform(-90, 90), 41.25, 0.3, float("nan"), 90, -90]) for _ in range(n)]
    c = random.random()
    la, lo = np.array(lat, dtype=float), np.array(lon, dtype=float)
    if c < 0.5:
        la, lo = np.ma.masked_invalid(la), np.ma.masked_invalid(lo)
    elif c < 0.6:
        la, lo = la.astype(">f8"), lo.astype("float32")
    elif c < 0.65:
        la, lo = lat, lon
    elif c < 0.7 and n:
        la = la[:-1]
    elif c < 0.75:
        la, lo = pd.Series(la), pd.Series(lo)
    return (la, lo), {}


ALPHABET = list("abcXYZ019_ -.[]*?/$%\n\t") + ["é", "٣", "²", "_", "9", "v_", "", "temp (C)"]


def args_cf():
    c = random.random()
    if c < 0.12:
        return (random.choice([None, 5, 1.5, b"abc", ["a"], ("a",), np.str_("1abc"), np.float64(1), object]),), {}
    return ("".join(random.choice(ALPHABET) for _ in range(random.randint(0, 7))),), {}


STREAM_IDS = ["temp", "sal[1]", "a*b", "what?", "x y", "_stream", 5]


def rtest_block():
    tests = OrderedDict()
    for _ in range(random.choice([1, 1, 2, 3])):
        name = random.choice(["gross_range_test", "spike_test", "flat_line_test", "location_test", "aggregate", "nope_test",
                              "rate_of_change_test", "climatology_test"])
        kwargs = random.choice([
            {"fail_span": [0, 12], "suspect_span": [1, 11]}, {"suspect_threshold": 1, "fail_threshold": 2},
            {"threshold": 0.5}, None, {}, {"bbox": [-80, 40, -70, 60]}, {"inp": [1, 2, 3], "fail_span": [0, 2]},
            {"config": [{"tspan": ["2020-01-01", "9999-12-31"], "vspan": [1, 2]}]},
        ])
        tests[name] = kwargs
    return tests


def rqc_config():
    mods = OrderedDict()
    for _ in range(random.choice([1, 1, 2])):
        mods[random.choice(["qartod", "argo", "qartod", "axds", "nomodule"])] = rtest_block()
    return mods


def rstreams():
    return OrderedDict((random.choice(STREAM_IDS), rqc_config()) for _ in range(random.choice([1, 2, 3])))


def rcontext():
    c = OrderedDict()
    if random.random() < 0.6:
        c["window"] = random.choice([
            {"starting": "2020-01-01T00:00:02Z", "ending": "2020-01-01T00:10:00Z"}, {"starting": pydt.datetime(2020, 1, 1, 0, 0, 3)},
            {"ending": "2020-01-01T00:00:20"}, {}, None, {"ending": "2020-01-01T00:00:02"}, {"ending": "2020-01-01T00:00:10"},
            {"starting": "2020-01-01T00:00:01", "ending": "2020-01-01T00:01:00"}, {"starting": "2020-01-01", "ending": "2020-01-02"},
            {"ending": pydt.datetime(2020, 1, 1, 0, 0, 1)}, {"ending": "2020-01-01T01:00:00"}, {"starting": None, "ending": None},
            {"starting": "9999-01-01"}, {"bogus": 1},
        ])
    if random.random() < 0.3:
        c["region"] = random.choice([None, {"type": "Point", "coordinates": [1, 2]},
                                     {"geometry": {"type": "Point", "coordinates": [-72, 34]}},
                                     {"features": [{"geometry": {"type": "Point", "coordinates": [-72, 34]}}]}, {}, "x"])
    if random.random() < 0.3:
        c["attrs"] = {"title": "x"}
    c["streams"] = rstreams()
    return c


def rconfig_source(mod):
    c = random.random()
    if c < 0.2:
        ctxs = [rcontext() for _ in range(random.choice([0, 1, 2, 3]))]
        if len(ctxs) > 1 and random.random() < 0.4:
            ctxs.append(ctxs[0])
        return {"contexts": ctxs}
    if c < 0.4:
        return rcontext()
    if c < 0.55:
        return rstreams()
    if c < 0.7:
        return rqc_config()
    if c < 0.75:
        import json
        src = random.choice([rstreams, rqc_config, rcontext])()
        try:
            return json.dumps(src)
        except TypeError:
            return "qartod:\n  gross_range_test:\n    fail_span: [0, 12]\n"
    if c < 0.8:
        return random.choice([None, 5, "not: [valid", "", [], {}, OrderedDict(), "qartod:\n  spike_test:\n    suspect_threshold: 1\n    fail_threshold: 2\n"])
    # call based sources
    try:
        base = mod.Config(rstreams())
    except Exception:  # noqa: BLE001
        return []
    if c < 0.86:
        return base
    if c < 0.92:
        return list(base.calls) + list(base.calls[:1])
    if c < 0.96:
        return base.calls[0] if base.calls else base
    return [base, base]


def args_config(mod):
    def build():
        kw = {}
        if random.random() < 0.3:
            kw["default_stream_key"] = random.choice(["_stream", "x[1]", None, 7])
        if random.random() < 0.1:
            kw["version"] = 2
        return (rconfig_source(mod),), kw
    return build


def config_summary(mod):
    def run(*a, **k):
        src_before = a[0]
        c = mod.Config(*a, **k)
        alias = isinstance(src_before, mod.Config) and c.calls is src_before.calls
        return (c.calls, list(c.contexts.keys()), c.stream_ids, getattr(c, "config", "<none>"), alias, sorted(vars(c)))
    return run


def args_numpy_stream(mod):
    def build():
        n = random.choice([0, 1, 2, 3, 5, 8])
        c = random.random()
        vals = rseries(n, allow_none=False)
        if c < 0.5:
            inp = np.array(vals, dtype=float)
            if random.random() < 0.2:
                inp = np.ma.masked_invalid(inp)
            elif random.random() < 0.15 and n % 2 == 0 and n:
                inp = inp.reshape(n // 2, 2) if random.random() < 0.5 else inp.reshape(n, 1)
        elif c < 0.85:
            inp = {sid: np.array(rseries(n, allow_none=False), dtype=float) for sid in random.sample(STREAM_IDS, random.choice([0, 1, 2, 3]))}
        else:
            inp = random.choice([None, list(vals), 5, "abc"])
        kw = {}
        if random.random() < 0.8:
            nt = n if random.random() < 0.95 else max(0, n - 1)
            kw["time"] = rtimes(nt)
        if random.random() < 0.5:
            kw["z"] = np.array([random.choice([0.0, 5.0, np.nan, 10.0]) for _ in range(n)])
        if random.random() < 0.4:
            kw["lat"] = np.array([random.uniform(-90, 90) for _ in range(n)])
            if random.random() < 0.8:
                kw["lon"] = np.array([random.uniform(-180, 180) for _ in range(n)])
        src = rconfig_source(mod)
        if random.random() < 0.5:
            src = {"contexts": [rcontext() for _ in range(random.choice([1, 2]))]} if random.random() < 0.5 else rcontext()
            if random.random() < 0.7:
                (src["contexts"][0] if "contexts" in src else src)["window"] = random.choice([
                    {"ending": "2020-01-01T00:00:02"}, {"ending": "2020-01-01T00:00:10"}, {"ending": "2020-01-01T00:01:00"},
                    {"starting": "2020-01-01T00:00:01", "ending": "2020-01-01T00:00:20"}, {"ending": "2020-01-02"}])
        return (inp, kw, src), {}
    return build


def numpy_stream_run(mod):
    def run(inp, kw, src):
        stream = mod.NumpyStream(inp, **kw)
        cfg = src if isinstance(src, mod.Config) else mod.Config(src)
        results = list(stream.run(cfg))
        return results, stream.inp
    return run


NUMS = ["3.", "2.e1", ".5", "007", "1e3", "1E-2", "+2", "-3", "1.5", "0", "3.e", "1e", "0x10", "1_0", "inf", "nan", "1..2", "2.3", "0.1"]
WORDS = ["mean", "min", "max", "std", "PI", "E", "pi", "e", "foo", "x1", "mean2"]
FNS = ["sin", "cos", "tan", "exp", "abs", "trunc", "round", "sgn", "sqrt", "mean"]


def rexpr(depth=0):
    c = random.random()
    if depth > 2 or c < 0.3:
        return random.choice(NUMS + WORDS)
    if c < 0.6:
        return f"{rexpr(depth + 1)}{random.choice([' ', ''])}{random.choice('+-*/^')}{random.choice([' ', ''])}{rexpr(depth + 1)}"
    if c < 0.72:
        return f"({rexpr(depth + 1)})"
    if c < 0.85:
        args = ", ".join(rexpr(depth + 1) for _ in range(random.choice([1, 1, 1, 2, 0])))
        return f"{random.choice(FNS)}({args})"
    if c < 0.93:
        return random.choice(["-", "--", "+", "-+"]) + rexpr(depth + 1)
    return random.choice(["", " ", "1 +", "(", "2 2", "1 / 0", "2 ^ 0.5", "(-8) ^ 0.5", "10 ^ 400", "9 ^ 9 ^ 9", "3.", ".5"])


def args_evalfx():
    stats = random.choice([
        {"mean": 1.5, "min": -2, "max": 10, "std": 0.3}, {"mean": np.float64(0.1), "min": np.float32(2.3), "max": 1e308, "std": float("nan")},
        {}, {"mean": 3}, None, {"mean": np.array([1.0, 2.0]), "min": 0, "max": 1, "std": 1},
    ])
    fx = rexpr() if random.random() < 0.97 else random.choice([None, 5, ["1"]])
    return (fx, stats), {}


def evalfx_run(mod):
    def run(fx, stats):
        try:
            return mod.eval_fx(fx, stats), len(mod.exprStack), list(mod.exprStack[-6:])
        finally:
            if len(mod.exprStack) > 400:
                del mod.exprStack[:-50]
    return run


TOKENS = ["mean", "min", "max", "std", "+", "-", "*", "/", "(", ")", "", "3.", "2.e1", ".5", "007", "1e3", "inf", "nan", "-2",
          "foo", "^", "mean+1", "1_0", "0x1", "Mean", "١", "  ", "\t", "infinity", "1e400", "+-1"]


def args_validate():
    c = random.random()
    if c < 0.06:
        fx = random.choice([None, 5, ["mean"], b"mean + 1"])
    else:
        fx = random.choice([" ", " ", " ", "  ", "\t"]).join(random.choice(TOKENS) for _ in range(random.randint(0, 6)))
    return (fx, random.choice(["suspect_min", "fail_max", None, 3])), {}


def validate_run(mod, variant):
    cls = mod.QcVariableConfig
    if variant == 1:
        cls = type("Sub", (cls,), {"allowed_stats": ("min", "foo"), "allowed_groupings": "()["})

    def run(fx, name):
        obj = cls.__new__(cls)
        if variant == 2:
            obj.allowed_operators = ["^", "+"]
        return obj._validate_fx(fx, name), dict(obj), vars(obj)
    return run


def args_add():
    def build():
        return ([rmember() for _ in range(random.choice([1, 2, 3]))],), {}
    return build()


def add_run(mod):
    def run(members):
        shared = [] if random.random() < 0.5 else None
        cfg = mod.ClimatologyConfig(shared)
        outs = []
        for m in members:
            try:
                kw = dict(m)
                if random.random() < 0.3:
                    outs.append(cfg.add(kw.pop("tspan"), kw.pop("vspan"), *[kw.pop(k) for k in ("fspan", "zspan", "period") if k in kw and len(kw) == 3]))
                else:
                    outs.append(cfg.add(**kw))
            except Exception as e:  # noqa: BLE001
                outs.append((type(e).__name__, str(e), type(e.__context__).__name__))
        return outs, cfg, cfg.members, shared
    return run


def convert_run(mod):
    def run(cfg, *_):
        out = mod.ClimatologyConfig.convert(cfg)
        return out, out is cfg
    return run


def check_run(mod):
    def run(cfg, inp, tinp, zinp):
        # direct call of ClimatologyConfig.check with hand-made members (no add() validation)
        conf = mod.ClimatologyConfig.convert(cfg)
        with warnings.catch_warnings():
            warnings.simplefilter("ignore")
            i = np.ma.masked_invalid(np.array(inp).astype(np.float64)).flatten()
            z = np.ma.masked_invalid(np.array(zinp).astype(np.float64)).flatten()
        t = pd.DatetimeIndex(mod.mapdates(tinp).flatten())
        if random.random() < 0.3 and conf.members:
            m = conf.members[0]
            conf.members.append(conf.mem(m.tspan, m.fspan, m.vspan, None if random.random() < 0.5 else m.zspan,
                                         random.choice([None, "month", "nonsense", "weekofyear"])))
        return conf.check(t, i, z), conf
    return run


def twice_with_edit(mod):
    """The same configuration list object passed twice with an in-place edit in between."""
    def run(cfg, inp, tinp, zinp):
        first = outcome(mod.climatology_test, cfg, inp, tinp, zinp)
        if isinstance(cfg, list):
            cfg.append({"tspan": ("2020-01-01", "9999-12-31"), "vspan": (0.1, 2.3), "zspan": (0, 10)})
            if len(cfg) > 1 and isinstance(cfg[0], dict):
                cfg[0]["vspan"] = (0.3, 1e308)
        second = outcome(mod.climatology_test, cfg, inp, tinp, zinp)
        return first, second
    return run


# ------------------------------------------------------------------ main
def main():  # noqa: C901
    random.seed(20261003)
    t0 = time.time()
    n = N_CASES
    nq, oq = NEW["qartod"], OLD["qartod"]
    for i in range(n):
        if i == n // 2:
            os.environ["TZ"] = "EST5EDT"
            time.tzset()
        check("flat_line_test", args_flat_line, nq.flat_line_test, oq.flat_line_test)
        check("attenuated_signal_test", args_attenuated, nq.attenuated_signal_test, oq.attenuated_signal_test)
        check("location_test", args_location, nq.location_test, oq.location_test)
        check("density_inversion_test", args_density, nq.density_inversion_test, oq.density_inversion_test)
        check("speed_test", args_speed, NEW["argo"].speed_test, OLD["argo"].speed_test)
        check("great_circle_distance", args_gcd, NEW["utils"].great_circle_distance, OLD["utils"].great_circle_distance)
        check("cf_safe_name", args_cf, NEW["utils"].cf_safe_name, OLD["utils"].cf_safe_name)
        check("eval_fx", args_evalfx, evalfx_run(NEW["config_creator.fx_parser"]), evalfx_run(OLD["config_creator.fx_parser"]))
        v = i % 3
        check("QcVariableConfig._validate_fx", args_validate, validate_run(NEW["config_creator.config_creator"], v),
              validate_run(OLD["config_creator.config_creator"], v))
        check("ClimatologyConfig.add", args_add, add_run(nq), add_run(oq))

        # the builders below create package-specific objects, so build each side with its own package
        for name, builder, runner in (
            ("climatology_test", args_climatology, lambda m: m.climatology_test),
            ("ClimatologyConfig.convert", args_climatology, convert_run),
            ("ClimatologyConfig.check", args_climatology, check_run),
            ("climatology_test(twice)", args_climatology, twice_with_edit) if i % 4 == 0 else (None, None, None),
        ):
            if name is None:
                continue
            COUNTS[name] = COUNTS.get(name, 0) + 1
            seed = random.getrandbits(48)
            outs = []
            for mod in (nq, oq):
                random.seed(seed)
                a, k = builder(mod)()
                random.seed(seed + 7)
                r = outcome(runner(mod), *a, **k)
                outs.append((r, norm((a, k))))
            tally(name, outs[1][0])
            random.seed(seed + 1)
            if outs[0] != outs[1] and len(FAILS) < 12:
                FAILS.append((name, a, k, outs[0][0], outs[1][0], outs[0][1] == outs[1][1], None))

        for name, builder, runner, mods in (
            ("Config.__init__", args_config, config_summary, (NEW["config"], OLD["config"])),
            ("NumpyStream.run", args_numpy_stream, numpy_stream_run, (NEW["streams"], OLD["streams"])),
        ):
            COUNTS[name] = COUNTS.get(name, 0) + 1
            seed = random.getrandbits(48)
            outs = []
            for mod in mods:
                random.seed(seed)
                a, k = builder(mod)()
                random.seed(seed + 7)
                r = outcome(runner(mod), *a, **k)
                outs.append((r, norm((a, k))))
            tally(name, outs[1][0])
            random.seed(seed + 1)
            if outs[0] != outs[1] and len(FAILS) < 12:
                FAILS.append((name, a, k, outs[0][0], outs[1][0], outs[0][1] == outs[1][1], None))

    print(f"cases per function: {COUNTS}")
    print(f"of which returned normally (rest raised, identically): {OKS}")
    print(f"cases with log records: {LOGS}")
    print(f"elapsed {time.time() - t0:.1f}s")
    if FAILS:
        for f in FAILS:
            print("MISMATCH", f[0])
            print("   args:", repr(f[1])[:600], repr(f[2])[:300])
            print("   new :", repr(f[3])[:700])
            print("   old :", repr(f[4])[:700])
            print("   same-mutation:", f[5], " same-extra:", f[6])
        print(f"FAILED: {len(FAILS)}+ mismatches")
        return 1
    print("OK: all outcomes identical")
    return 0


if __name__ == "__main__":
    sys.exit(main())
