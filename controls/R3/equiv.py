#!/usr/bin/env python
"""Differential check: refactored functions (this worktree) against the originals (/repo).

Run as:  PYTHONPATH=<worktree> /venv/bin/python equiv.py

The refactored functions are imported from the worktree (the regular ``ioos_qc`` package). The
originals are loaded from /repo's module files under different module names
(importlib.util.spec_from_file_location); while one of them is executed, the already loaded
original modules are visible under their ``ioos_qc.*`` names, so an original module only ever binds
to other ORIGINAL modules (e.g. the original PandasStore.save uses the original cf_safe_name).
Modules that were not touched (ioos_qc.qartod, ...) are shared by both sides.

The comparison is made on generated configurations and small tables (0..8 rows, NaN, missing axes,
windows, regions, bad thresholds, ...), not on bare series: every scenario is built twice from the
same description, run through both sides, and the outcomes (values, dtypes, masks, exception types,
log messages and the state of the inputs after the call) are compared.
"""

import copy
import dataclasses
import datetime
import importlib
import importlib.util
import logging
import os
import random
import sys
import types
import warnings
from functools import partial

import numpy as np
import pandas as pd

warnings.simplefilter("ignore")

HERE = os.path.dirname(os.path.abspath(__file__))
REPO = "/repo"
N_CASES = int(os.environ.get("EQUIV_CASES", "3000"))

# --------------------------------------------------------------------------------------
# the two sides
# --------------------------------------------------------------------------------------
MODULE_NAMES = ["utils", "results", "config", "streams", "stores", "config_creator.fx_parser"]

import ioos_qc  # noqa: E402

assert os.path.realpath(ioos_qc.__file__).startswith(os.path.realpath(HERE) + os.sep), (
    f"ioos_qc was imported from {ioos_qc.__file__}: run with PYTHONPATH={HERE}"
)

from ioos_qc import qartod  # noqa: E402  (shared, untouched)

NEW = {name: importlib.import_module(f"ioos_qc.{name}") for name in MODULE_NAMES}


def _load_originals():
    loaded = {}
    for name in MODULE_NAMES:
        path = os.path.join(REPO, "ioos_qc", *name.split(".")) + ".py"
        alias = "orig_ioos_qc_" + name.replace(".", "_")
        spec = importlib.util.spec_from_file_location(alias, path)
        module = importlib.util.module_from_spec(spec)
        sys.modules[alias] = module
        for done, mod in loaded.items():
            sys.modules[f"ioos_qc.{done}"] = mod
        try:
            spec.loader.exec_module(module)
        finally:
            for done in loaded:
                sys.modules[f"ioos_qc.{done}"] = NEW[done]
        loaded[name] = module
    return loaded


OLD = _load_originals()


class Side:
    def __init__(self, label, mods) -> None:
        self.label = label
        self.utils = mods["utils"]
        self.results = mods["results"]
        self.config = mods["config"]
        self.streams = mods["streams"]
        self.stores = mods["stores"]
        self.fx = mods["config_creator.fx_parser"]
        self.loggers = [m.L for m in (self.utils, self.results, self.config, self.streams, self.stores)]


new = Side("new", NEW)
old = Side("old", OLD)
SIDES = (old, new)


def _check_wiring():
    def src(f):
        return os.path.realpath(f.__code__.co_filename)

    here, repo = os.path.realpath(HERE) + os.sep, os.path.realpath(REPO) + os.sep
    pairs = [
        (lambda s: s.results.collect_results_list),
        (lambda s: s.results.collect_results_dict),
        (lambda s: s.streams.NumpyStream.run),
        (lambda s: s.streams.PandasStream.run),
        (lambda s: s.config.Call.run),
        (lambda s: s.stores.PandasStore.save),
        (lambda s: s.stores.column_from_collected_result),
        (lambda s: s.utils.cf_safe_name),
        (lambda s: s.fx.evaluate_stack),
    ]
    for get in pairs:
        assert src(get(new)).startswith(here), src(get(new))
        assert src(get(old)).startswith(repo), src(get(old))
        assert get(new) is not get(old)
    # the originals are wired to each other, the refactored ones as well
    assert old.stores.cf_safe_name is old.utils.cf_safe_name
    assert new.stores.cf_safe_name is new.utils.cf_safe_name
    assert old.stores.collect_results is old.results.collect_results
    assert old.streams.ContextResult is old.results.ContextResult
    assert old.streams.Config is old.config.Config
    assert old.config.CallResult is old.results.CallResult
    assert old.results.CallResult is not new.results.CallResult


_check_wiring()


# --------------------------------------------------------------------------------------
# log capture
# --------------------------------------------------------------------------------------
class _Capture(logging.Handler):
    def __init__(self) -> None:
        super().__init__(level=logging.DEBUG)
        self.records = []

    def emit(self, record) -> None:
        self.records.append((record.levelname, record.getMessage()))


_captures = {}
for _side in SIDES:
    cap = _Capture()
    _captures[_side.label] = cap
    for lg in _side.loggers:
        lg.addHandler(cap)
        lg.setLevel(logging.DEBUG)
        lg.propagate = False


def logs_of(side):
    cap = _captures[side.label]
    out, cap.records = cap.records, []
    return out


# --------------------------------------------------------------------------------------
# structural comparison
# --------------------------------------------------------------------------------------
class Mismatch(Exception):
    pass


def _fail(path, a, b, why):
    raise Mismatch(f"{path}: {why}\n   old: {a!r}\n   new: {b!r}")


def _is_namedtuple(x):
    return isinstance(x, tuple) and hasattr(x, "_fields")


def same(a, b, path="value"):  # noqa: C901, PLR0912, PLR0911
    """Raise Mismatch unless a (old side) and b (new side) are indistinguishable."""
    if isinstance(a, BaseException) or isinstance(b, BaseException):
        if type(a) is not type(b):
            _fail(path, a, b, "different exception types")
        return
    if _is_namedtuple(a) or _is_namedtuple(b):
        if not (_is_namedtuple(a) and _is_namedtuple(b)):
            _fail(path, a, b, "namedtuple vs something else")
        if type(a).__name__ != type(b).__name__ or a._fields != b._fields:
            _fail(path, a, b, "different namedtuple types")
        for f in a._fields:
            same(getattr(a, f), getattr(b, f), f"{path}.{f}")
        return
    if dataclasses.is_dataclass(a) or dataclasses.is_dataclass(b):
        if not (dataclasses.is_dataclass(a) and dataclasses.is_dataclass(b)):
            _fail(path, a, b, "dataclass vs something else")
        if type(a).__name__ != type(b).__name__:
            _fail(path, a, b, "different dataclass types")
        fa = [f.name for f in dataclasses.fields(a)]
        fb = [f.name for f in dataclasses.fields(b)]
        if fa != fb:
            _fail(path, a, b, "different dataclass fields")
        for f in fa:
            same(getattr(a, f), getattr(b, f), f"{path}.{f}")
        return
    if isinstance(a, types.FunctionType) or isinstance(b, types.FunctionType):
        if a is not b:
            _fail(path, a, b, "different functions")
        return
    if type(a) is not type(b):
        _fail(path, a, b, f"different types {type(a)} / {type(b)}")
    if isinstance(a, np.ma.MaskedArray):
        if a.dtype != b.dtype or a.shape != b.shape:
            _fail(path, a, b, "masked arrays differ in dtype/shape")
        ma, mb = np.ma.getmaskarray(a), np.ma.getmaskarray(b)
        if not np.array_equal(ma, mb):
            _fail(path, a, b, "masks differ")
        same(np.asarray(np.ma.getdata(a)[~ma]), np.asarray(np.ma.getdata(b)[~mb]), path + "<data>")
        return
    if isinstance(a, np.ndarray):
        if a.dtype != b.dtype or a.shape != b.shape:
            _fail(path, a, b, "arrays differ in dtype/shape")
        if a.dtype == object:
            for i, (x, y) in enumerate(zip(a.ravel().tolist(), b.ravel().tolist())):
                same(x, y, f"{path}[{i}]")
        elif np.ascontiguousarray(a).tobytes() != np.ascontiguousarray(b).tobytes():
            _fail(path, a, b, "arrays differ")
        return
    if isinstance(a, pd.DataFrame):
        if list(a.columns) != list(b.columns):
            _fail(path, list(a.columns), list(b.columns), "different columns")
        try:
            pd.testing.assert_frame_equal(a, b, check_exact=True, check_names=True)
        except AssertionError as e:
            _fail(path, a, b, f"frames differ: {e}")
        return
    if isinstance(a, pd.Series):
        try:
            pd.testing.assert_series_equal(a, b, check_exact=True)
        except AssertionError as e:
            _fail(path, a, b, f"series differ: {e}")
        return
    if isinstance(a, pd.Index):
        try:
            pd.testing.assert_index_equal(a, b, exact=True)
        except AssertionError as e:
            _fail(path, a, b, f"indexes differ: {e}")
        return
    if isinstance(a, dict):
        ka, kb = list(a.keys()), list(b.keys())
        if len(ka) != len(kb) or any(x is not y and x != y for x, y in zip(ka, kb)):
            _fail(path, ka, kb, "different keys (or key order)")
        for k in ka:
            same(a[k], b[k], f"{path}[{k!r}]")
        return
    if isinstance(a, (list, tuple)):
        if len(a) != len(b):
            _fail(path, a, b, "different lengths")
        for i, (x, y) in enumerate(zip(a, b)):
            same(x, y, f"{path}[{i}]")
        return
    if isinstance(a, (float, complex, np.generic)):
        if repr(a) != repr(b):
            _fail(path, a, b, "numbers differ")
        return
    if a is b:
        return
    try:
        equal = bool(a == b)
    except Exception as e:  # noqa: BLE001
        _fail(path, a, b, f"not comparable: {e!r}")
    if not equal:
        _fail(path, a, b, "values differ")


def outcome(fn, *args, **kwargs):
    """(result, exception) of a call; a generator result is drained."""
    try:
        res = fn(*args, **kwargs)
    except BaseException as e:  # noqa: BLE001
        if isinstance(e, (KeyboardInterrupt, SystemExit)) and not isinstance(e, Boom):
            raise
        return None, e
    if isinstance(res, types.GeneratorType):
        items = []
        try:
            for item in res:
                items.append(item)
        except BaseException as e:  # noqa: BLE001
            if isinstance(e, (KeyboardInterrupt, SystemExit)):
                raise
            return items, e
        return items, None
    return res, None


class Boom(BaseException):
    """Not an Exception: must escape Call.run on both sides."""


# --------------------------------------------------------------------------------------
# generators of small tables and configurations
# --------------------------------------------------------------------------------------
T0 = datetime.datetime(2020, 1, 1)
VARIABLES = ["temp", "sal", "9var", "pres"]


def gen_floats(rng, n, lo=-5.0, hi=40.0, nan=0.2):
    vals = [rng.choice([rng.uniform(lo, hi), float(rng.randint(0, 12))]) for _ in range(n)]
    arr = np.array(vals, dtype="float64")
    for i in range(n):
        if rng.random() < nan:
            arr[i] = np.nan
    return arr


def gen_times(rng, n):
    steps = [rng.choice([0, 1, 30, 60, 600, 3600, 86400]) for _ in range(n)]
    if rng.random() < 0.8:
        steps = [max(s, 1) for s in steps]
    secs = np.cumsum(steps).astype("int64")
    if rng.random() < 0.1 and n > 1:
        rng.shuffle(secs)
    return (np.datetime64(T0, "s") + secs.astype("timedelta64[s]")).astype("datetime64[ns]")


def gen_window(rng):
    def pick():
        r = rng.random()
        if r < 0.35:
            return None
        return T0 + datetime.timedelta(seconds=rng.choice([-10, 0, 1, 45, 600, 4000, 90000, 400000]))

    if rng.random() < 0.3:
        return None
    return {"starting": pick(), "ending": pick()}


def gen_region(rng):
    r = rng.random()
    if r < 0.75:
        return "absent"
    if r < 0.85:
        return {"geometry": {"type": "Point", "coordinates": [-72.0, 34.0]}}
    if r < 0.95:
        return {
            "features": [
                {
                    "type": "Feature",
                    "geometry": {
                        "type": "Polygon",
                        "coordinates": [[[-80, 30], [-60, 30], [-60, 45], [-80, 45], [-80, 30]]],
                    },
                },
            ],
        }
    return None


def gen_span(rng, allow_none=False, bad=0.1):
    if allow_none and rng.random() < 0.35:
        return None
    lo = rng.choice([-2, 0, 1, 5, 10.5])
    hi = lo + rng.choice([0, 1, 5, 20, 40])
    if rng.random() < bad:
        lo, hi = hi + 1, lo
    if rng.random() < 0.03:
        return [lo]
    return [lo, hi]


def gen_thr(rng, allow_none=True):
    r = rng.random()
    if allow_none and r < 0.25:
        return None
    if r < 0.28:
        return "x"
    return rng.choice([0, 0.5, 1, 2, 3, 10, 60, 600, 3600])


def gen_test(rng, n):  # noqa: C901, PLR0911
    """(test name, kwargs) for the qartod package."""
    name = rng.choice(
        [
            "gross_range_test",
            "gross_range_test",
            "spike_test",
            "rate_of_change_test",
            "flat_line_test",
            "location_test",
            "attenuated_signal_test",
            "density_inversion_test",
            "climatology_test",
            "no_such_test",
        ],
    )
    if name == "gross_range_test":
        kw = {"fail_span": gen_span(rng)}
        if rng.random() < 0.7:
            kw["suspect_span"] = gen_span(rng, allow_none=True)
        if rng.random() < 0.05:
            del kw["fail_span"]
    elif name == "spike_test":
        kw = {"suspect_threshold": gen_thr(rng), "fail_threshold": gen_thr(rng)}
        if rng.random() < 0.5:
            kw["method"] = rng.choice(["average", "differential", "bogus"])
    elif name == "rate_of_change_test":
        kw = {"threshold": gen_thr(rng, allow_none=False)}
    elif name == "flat_line_test":
        kw = {
            "suspect_threshold": rng.choice([0, 30, 60, 3600]),
            "fail_threshold": rng.choice([60, 120, 7200]),
            "tolerance": rng.choice([0, 0.1, 1, 5]),
        }
    elif name == "location_test":
        kw = {"bbox": rng.choice([[-80, 30, -60, 45], [-180, -90, 180, 90], [0, 0, 1]])}
        if rng.random() < 0.3:
            kw["range_max"] = rng.choice([None, 1000, 1e6])
    elif name == "attenuated_signal_test":
        kw = {
            "suspect_threshold": rng.choice([0.5, 1, 5]),
            "fail_threshold": rng.choice([0.1, 0.5, 1]),
            "check_type": rng.choice(["std", "range", "bogus"]),
        }
        if rng.random() < 0.5:
            kw["test_period"] = rng.choice([None, 60, 3600])
            kw["min_obs"] = rng.choice([None, 1, 2])
    elif name == "density_inversion_test":
        kw = {"suspect_threshold": gen_thr(rng), "fail_threshold": gen_thr(rng)}
    elif name == "climatology_test":
        kw = {
            "config": [
                {
                    "vspan": gen_span(rng, bad=0),
                    "fspan": gen_span(rng, allow_none=True, bad=0),
                    "tspan": [T0, T0 + datetime.timedelta(days=rng.choice([1, 30]))],
                    **({"zspan": [0, rng.choice([5, 100])]} if rng.random() < 0.5 else {}),
                },
            ],
        }
    else:
        kw = {}
    if rng.random() < 0.04:
        kw = None
    elif rng.random() < 0.08:
        kw["not_a_parameter"] = 7
    if kw is not None and rng.random() < 0.12:
        # the deprecated way of passing the input
        kw["inp"] = gen_floats(rng, n).tolist()
    return name, kw


def gen_streams(rng, n):
    streams = {}
    pool = VARIABLES + ["missing"]
    for var in rng.sample(pool, rng.randint(1, 3)):
        tests = {}
        for _ in range(rng.randint(1, 3)):
            tname, kw = gen_test(rng, n)
            tests[tname] = kw
        packages = {"qartod": tests}
        if rng.random() < 0.05:
            packages["no_such_package"] = {"a_test": {}}
        streams[var] = packages
    return streams


def gen_context(rng, n):
    ctx = {"streams": gen_streams(rng, n)}
    window = gen_window(rng)
    if window is not None:
        ctx["window"] = window
    region = gen_region(rng)
    if region != "absent":
        ctx["region"] = region
    return ctx


def gen_config_dict(rng, n):
    r = rng.random()
    if r < 0.35:
        return {"contexts": [gen_context(rng, n) for _ in range(rng.randint(1, 3))]}
    if r < 0.8:
        return gen_context(rng, n)
    return gen_streams(rng, n)


def build_config(side, cfg_dict):
    return side.config.Config(copy.deepcopy(cfg_dict))


def gen_numpy_table(rng):  # noqa: C901
    """Description of a NumpyStream: small arrays, any axis may be missing."""
    n = rng.choice([0, 1, 1, 2, 3, 4, 5, 6, 7, 8])
    r = rng.random()
    if r < 0.55:
        inp = gen_floats(rng, n)
        if rng.random() < 0.05:
            inp = inp.reshape((n, 1))
        if rng.random() < 0.05:
            inp = np.ma.masked_invalid(inp)
    elif r < 0.83:
        inp = {}
        for var in rng.sample(VARIABLES, rng.choice([0, 1, 2, 3, 3, 4, 4])):
            inp[var] = gen_floats(rng, n if rng.random() > 0.02 else n + 1)
            if rng.random() < 0.03:
                inp[var] = inp[var].tolist()
    elif r < 0.95:
        inp = None
    else:
        inp = rng.choice([[1.0, 2.0], "text", 3])

    def axis(maker, p_none):
        if rng.random() < p_none:
            return None
        m = n if rng.random() > 0.015 else n + 1
        return maker(m)

    if inp is None and rng.random() < 0.7:
        # (the deprecated "inp in the config" way only works without axes of another size)
        return {"n": n, "inp": None, "time": None, "z": None, "lat": None, "lon": None, "geom": None}
    time = axis(lambda m: gen_times(rng, m), 0.25)
    if time is not None and rng.random() < 0.15:
        time = (time.astype("datetime64[s]").astype("int64")).tolist()  # epoch seconds
    return {
        "n": n,
        "inp": inp,
        "time": time,
        "z": axis(lambda m: np.abs(gen_floats(rng, m, 0, 50)), 0.4),
        "lat": axis(lambda m: gen_floats(rng, m, 25, 50, nan=0.1), 0.4),
        "lon": axis(lambda m: gen_floats(rng, m, -85, -55, nan=0.1), 0.4),
        "geom": None,
    }


def build_numpy_stream(side, table):
    t = copy.deepcopy(table)
    return side.streams.NumpyStream(
        inp=t["inp"], time=t["time"], z=t["z"], lat=t["lat"], lon=t["lon"], geom=t["geom"],
    )


def gen_pandas_table(rng):
    """Description of a PandasStream: a small dataframe, any axis column may be missing."""
    n = rng.choice([0, 1, 1, 2, 3, 4, 5, 6, 7, 8])
    names = {"time": "time", "z": "z", "lat": "lat", "lon": "lon"}
    if rng.random() < 0.2:
        names = {"time": "t", "z": "depth", "lat": "y", "lon": "x"}
    cols = {}
    if rng.random() < 0.8:
        cols[names["time"]] = gen_times(rng, n)
    if rng.random() < 0.6:
        cols[names["z"]] = np.abs(gen_floats(rng, n, 0, 50))
    if rng.random() < 0.6:
        cols[names["lat"]] = gen_floats(rng, n, 25, 50, nan=0.1)
    if rng.random() < 0.6:
        cols[names["lon"]] = gen_floats(rng, n, -85, -55, nan=0.1)
    for var in rng.sample(VARIABLES, rng.choice([0, 1, 2, 3, 3, 4, 4])):
        cols[var] = gen_floats(rng, n)
    order = list(cols)
    rng.shuffle(order)
    r = rng.random()
    if r < 0.7:
        index = None
    elif r < 0.85:
        index = rng.sample(range(100), n)
    elif r < 0.93:
        index = [rng.randint(0, 3) for _ in range(n)]  # duplicates
    else:
        index = [f"r{i}" for i in range(n)]
    explicit = names["time"] != "time" or rng.random() < 0.3
    return {"n": n, "cols": cols, "order": order, "index": index, "names": names, "explicit": explicit}


def build_pandas_stream(side, table):
    t = copy.deepcopy(table)
    df = pd.DataFrame({c: t["cols"][c] for c in t["order"]}, index=t["index"])
    if not t["order"]:
        df = pd.DataFrame(index=t["index"] if t["index"] is not None else range(t["n"]))
    if t["explicit"]:
        nm = t["names"]
        return side.streams.PandasStream(df, time=nm["time"], z=nm["z"], lat=nm["lat"], lon=nm["lon"])
    return side.streams.PandasStream(df)


# --------------------------------------------------------------------------------------
# the checks
# --------------------------------------------------------------------------------------
COUNTS = {}
EXCEPTIONS = {}


REACHED = {}
STATS = {}
SAMPLES = {}
UNREACHED = "the function under test was not reached"


def note(check, exc):
    COUNTS[check] = COUNTS.get(check, 0) + 1
    if exc is UNREACHED:
        return
    REACHED[check] = REACHED.get(check, 0) + 1
    if exc is not None:
        key = (check, type(exc).__name__)
        EXCEPTIONS[key] = EXCEPTIONS.get(key, 0) + 1
        SAMPLES.setdefault(key, str(exc)[:150])


def stat(check, label, condition=True):
    if condition:
        STATS[(check, label)] = STATS.get((check, label), 0) + 1


def compare_sides(check, seed, run):
    """run(side) -> anything comparable; also compares the log output of both sides."""
    got = {}
    for side in SIDES:
        logs_of(side)
        res = run(side)
        got[side.label] = (res, logs_of(side))
    try:
        same(got["old"][0], got["new"][0], check)
        same(got["old"][1], got["new"][1], check + "<logs>")
    except Mismatch as e:
        print(f"MISMATCH in {check} (seed {seed})\n{e}")
        raise SystemExit(1) from None
    return got["new"][0]


# ---- cf_safe_name --------------------------------------------------------------------
ALPHABET = "abzAZ019_ .-/:#%é٣\n$"


def gen_name(rng):
    r = rng.random()
    if r < 0.85:
        return "".join(rng.choice(ALPHABET) for _ in range(rng.randint(0, 8)))
    return rng.choice([None, 0, 12, 1.5, b"abc", ["a"], ("a",), True, np.str_("9a.b"), np.nan])


def check_cf_safe_name(seed):
    rng = random.Random(seed)
    name = gen_name(rng)

    def run(side):
        res, exc = outcome(side.utils.cf_safe_name, copy.deepcopy(name))
        note_exc[0] = exc
        return res, exc

    note_exc = [UNREACHED]
    compare_sides("cf_safe_name", seed, run)
    note("cf_safe_name", note_exc[0])


# ---- column_from_collected_result ----------------------------------------------------
def gen_label(rng):
    r = rng.random()
    if r < 0.2:
        return None
    if r < 0.3:
        return ""
    if r < 0.9:
        return "".join(rng.choice(ALPHABET) for _ in range(rng.randint(1, 6)))
    return rng.choice([0, 7, 2.5, False, True, ("a", 1), b"x"])


def check_column_name(seed):
    rng = random.Random(seed)
    fields = {"stream_id": gen_label(rng), "package": gen_label(rng), "test": gen_label(rng)}
    plain = rng.random() < 0.3
    note_exc = [UNREACHED]

    def run(side):
        if plain:
            cr = types.SimpleNamespace(**fields)
        else:
            cr = side.results.CollectedResult(function=qartod.spike_test, **fields)
        res, exc = outcome(side.stores.column_from_collected_result, cr)
        note_exc[0] = exc
        return res, exc, cr.stream_id, cr.package, cr.test

    compare_sides("column_from_collected_result", seed, run)
    note("column_from_collected_result", note_exc[0])


# ---- evaluate_stack ------------------------------------------------------------------
_BNF = new.fx.BNF()  # untouched, identical on both sides: only used to produce stacks
ATOMS = ["0", "1", "2", "2.5", "3.", "10", "1e3", "1E-2", "PI", "E", "pi", "e", "mean", "min", "max", "std"]
ODD_ATOMS = ["foo", "x_1", "Mean", "710", "1e308"]
FUNCS1 = ["sin", "cos", "tan", "exp", "abs", "trunc", "round", "sgn", "nofn", "mean"]


def gen_expr(rng, depth):
    r = rng.random()
    if depth <= 0 or r < 0.25:
        return rng.choice(ATOMS if rng.random() < 0.93 else ODD_ATOMS)
    if r < 0.65:
        op = rng.choice("+-*/^")
        left, right = gen_expr(rng, depth - 1), gen_expr(rng, depth - 1)
        text = f"{left} {op} {right}"
        return f"({text})" if rng.random() < 0.5 else text
    if r < 0.8:
        return rng.choice(["-", "--", "+", "-+-"]) + gen_expr(rng, depth - 1)
    if r < 0.9:
        return f"{rng.choice(FUNCS1)}({gen_expr(rng, depth - 1)})"
    # two arguments: their order matters (an integer number of digits: trunc(..) or an integer statistic)
    second = rng.choice(["trunc(1.7)", "trunc(mean)", "min", "max", "sgn(std)", gen_expr(rng, depth - 1)])
    return f"{rng.choice(['round', 'round', 'abs', 'nofn'])}({gen_expr(rng, depth - 1)}, {second})"


RAW_TOKENS = [
    "+", "-", "*", "/", "^", "unary -", "PI", "E", "mean", "min", "max", "std",
    ("sin", 1), ("round", 2), ("round", 1), ("abs", 1), ("abs", 0), ("trunc", 1), ("sgn", 1), ("exp", 1),
    ("foo", 1), ("mean", 1), ("sin",), ("sin", 1, 2), ("+", 2), ("sin", "1"), ("sin", -1),
    "foo", "sin", "1.5", "2", "-3", "0", "1e400", "nan", "inf", "", "+-", "*/", " ", "é", "٣", "_x", ".", "1_0",
    3.0, 2, None, b"1", ["1"],
]  # fmt: skip


def gen_stats(rng):
    def val():
        r = rng.random()
        if r < 0.8:
            return rng.choice([rng.uniform(-10, 30), float(rng.randint(-3, 12)), rng.randint(-3, 12)])
        if r < 0.9:
            return rng.choice([float("nan"), float("inf"), 0.0, -0.0])
        if r < 0.95:
            return np.float64(rng.uniform(-10, 30))
        return np.array([1.0, np.nan, rng.uniform(-3, 3)])

    stats = {k: val() for k in ("mean", "min", "max", "std")}
    if rng.random() < 0.08:
        del stats[rng.choice(list(stats))]
    return stats


def check_evaluate_stack(seed):
    rng = random.Random(seed)
    stack = None
    if rng.random() < 0.6:
        expr = gen_expr(rng, rng.randint(0, 4))
        del new.fx.exprStack[:]
        try:
            _BNF.parseString(expr, parseAll=True)
            stack = new.fx.exprStack[:]
        except Exception:  # noqa: BLE001
            stack = None
        del new.fx.exprStack[:]
        if stack is not None and rng.random() < 0.1 and stack:
            stack.pop(rng.randrange(len(stack)))  # truncated / damaged stack
    if stack is None:
        stack = [rng.choice(RAW_TOKENS) for _ in range(rng.randint(0, 6))]
    stats = gen_stats(rng)
    note_exc = [UNREACHED]

    def run(side):
        s, st = copy.deepcopy(stack), copy.deepcopy(stats)
        res, exc = outcome(side.fx.evaluate_stack, s, st)
        note_exc[0] = exc
        return res, exc, s, st  # what is left on the stack matters too

    compare_sides("evaluate_stack", seed, run)
    note("evaluate_stack", note_exc[0])


# ---- collect_results_list / collect_results_dict on synthetic results ----------------
TEST_FUNCS = [qartod.gross_range_test, qartod.spike_test, qartod.flat_line_test]


def gen_result_specs(rng):  # noqa: C901
    n = rng.choice([0, 1, 2, 3, 4, 5, 6, 7, 8])
    specs = []
    for _ in range(rng.randint(0, 5)):
        if rng.random() < 0.12:
            fn = rng.choice(TEST_FUNCS)
            specs.append(
                {
                    "kind": "call",
                    "package": rng.choice(["qartod", "argo", "a"]),
                    "test": rng.choice([fn.__name__, "t1"]),
                    "function": fn,
                    "results": gen_flags(rng, n),
                },
            )
            continue
        r = rng.random()
        if r < 0.45:
            mask = np.ones(n, dtype=bool)
        elif r < 0.9:
            mask = np.array([rng.random() < 0.6 for _ in range(n)], dtype=bool)
        else:
            mask = np.zeros(n, dtype=bool)
        k = int(mask.sum())

        def length():
            return k if rng.random() > 0.015 else k + 1

        calls = []
        for _ in range(rng.choice([0, 1, 1, 2, 2, 3])):
            fn = rng.choice(TEST_FUNCS)
            calls.append(
                {
                    "package": rng.choice(["qartod", "qartod", "argo"]),
                    "test": rng.choice([fn.__name__, fn.__name__, "t1"]),
                    "function": fn,
                    "results": gen_flags(rng, length()),
                },
            )

        def maybe(arr):
            return None if rng.random() < 0.01 else arr

        specs.append(
            {
                "kind": "context",
                "stream_id": rng.choice(["a", "a", "b", "9c", "", None, 5]),
                "calls": calls,
                "subset_indexes": mask if rng.random() > 0.01 else mask.tolist(),
                "data": maybe(gen_floats(rng, length()) if rng.random() > 0.1 else np.arange(length())),
                "tinp": maybe(gen_times(rng, length())),
                "zinp": maybe(gen_floats(rng, length(), 0, 50)),
                "lat": maybe(gen_floats(rng, length(), 25, 50)),
                "lon": maybe(gen_floats(rng, length(), -85, -55)),
            },
        )
    return specs


def gen_flags(rng, n):
    vals = np.array([rng.choice([1, 1, 2, 3, 4, 9]) for _ in range(n)], dtype="uint8")
    r = rng.random()
    if r < 0.6:
        return np.ma.array(vals, mask=[rng.random() < 0.2 for _ in range(n)])
    if r < 0.75:
        return np.ma.array(vals)
    if r < 0.9:
        return vals
    return vals.astype("int64")


def build_results(side, specs):
    specs = copy.deepcopy(specs)  # (functions are deep-copied by reference)
    built = []
    for s in specs:
        if s["kind"] == "call":
            built.append(
                side.results.CallResult(
                    package=s["package"], test=s["test"], function=s["function"], results=s["results"],
                ),
            )
        else:
            calls = [
                side.results.CallResult(
                    package=c["package"], test=c["test"], function=c["function"], results=c["results"],
                )
                for c in s["calls"]
            ]
            built.append(
                side.results.ContextResult(
                    stream_id=s["stream_id"],
                    results=calls,
                    subset_indexes=s["subset_indexes"],
                    data=s["data"],
                    tinp=s["tinp"],
                    zinp=s["zinp"],
                    lat=s["lat"],
                    lon=s["lon"],
                ),
            )
    return built


def check_collect(seed, which):
    rng = random.Random(seed)
    specs = gen_result_specs(rng)
    as_iterator = rng.random() < 0.3
    note_exc = [UNREACHED]

    def run(side):
        built = build_results(side, specs)
        fn = getattr(side.results, which)
        res, exc = outcome(fn, iter(built) if as_iterator else built)
        note_exc[0] = exc
        if side is new:
            stat(which, "non-empty result", bool(res))
        # `built` afterwards: the inputs may legitimately be written to (aliasing), identically
        return res, exc, built

    compare_sides(which, seed, run)
    note(which, note_exc[0])


# ---- Call.run ------------------------------------------------------------------------
def f_plain(inp, a=1):
    return np.asarray(inp, dtype="float64") * a


def f_kwonly(inp, *, a=1):
    return np.asarray(inp, dtype="float64") + a


def f_posonly(inp, /, a=1):
    return np.asarray(inp, dtype="float64") - a


def f_varkw(inp, tinp=None, *args, **kwargs):
    return (np.asarray(inp).shape, None if tinp is None else len(tinp), args, sorted(kwargs))


def f_raises(inp):
    msg = "nope"
    raise ValueError(msg)


def f_boom(inp):
    raise Boom


def f_mutates(inp, zinp=None):
    inp[...] = 0
    return np.asarray(inp)


f_aggregate = qartod.aggregate
CUSTOM_FUNCS = [f_plain, f_kwonly, f_posonly, f_varkw, f_raises, f_boom, f_mutates, f_aggregate, max, len, int]


def gen_passed_kwargs(rng, n):
    def wrap(arr):
        r = rng.random()
        if r < 0.6:
            return arr
        if r < 0.85:
            return pd.Series(arr)
        if r < 0.95:
            return arr.tolist()
        return np.ma.masked_invalid(arr) if arr.dtype.kind == "f" else arr

    passed = {}
    if rng.random() < 0.92:
        passed["inp"] = wrap(gen_floats(rng, n))
    if rng.random() < 0.85:
        passed["tinp"] = wrap(gen_times(rng, n))
    if rng.random() < 0.8:
        passed["zinp"] = wrap(np.abs(gen_floats(rng, n, 0, 50)))
    if rng.random() < 0.8:
        passed["lat"] = wrap(gen_floats(rng, n, 25, 50, nan=0.1))
    if rng.random() < 0.8:
        passed["lon"] = wrap(gen_floats(rng, n, -85, -55, nan=0.1))
    if rng.random() < 0.15:
        passed["bogus"] = {"nested": [1, 2]}
    if rng.random() < 0.1:
        passed["fail_span"] = [0, 1]  # overrides what was configured
    if rng.random() < 0.1:
        passed["a"] = rng.choice([2, 3.5])
    keys = list(passed)
    rng.shuffle(keys)
    return {k: passed[k] for k in keys}


def check_call_run(seed):
    rng = random.Random(seed)
    n = rng.choice([0, 1, 2, 3, 4, 5, 6, 7, 8])
    passed = gen_passed_kwargs(rng, n)
    custom = rng.random() < 0.25
    if custom:
        fn = rng.choice(CUSTOM_FUNCS)
        cfg_kwargs = rng.choice([{}, {"a": 2}, {"a": 3, "inp": [1.0, 2.0]}, {"zinp": [1], "extra": 1}])
        cfg_dict = None
    else:
        cfg_dict = gen_config_dict(rng, n)
    pick = rng.random()
    note_exc = [UNREACHED]

    def run(side):
        if custom:
            calls = [side.config.Call(stream_id="x", call=partial(fn, (), **copy.deepcopy(cfg_kwargs)))]
        else:
            config, exc = outcome(build_config, side, cfg_dict)
            if exc is not None:
                return "config failed", exc
            calls = config.calls
        if not calls:
            return "no calls"
        call = calls[int(pick * len(calls))]
        mine = copy.deepcopy(passed)
        configured_before = copy.deepcopy(call.kwargs)
        res, exc = outcome(call.run, **mine)
        note_exc[0] = exc
        if side is new:
            stat("Call.run", "returned flags", bool(res))
            stat("Call.run", "returned nothing (error logged)", exc is None and not res)
        # neither the passed in nor the configured arguments may change differently
        return res, exc, mine, configured_before, call.kwargs, call.stream_id, call.method_path

    compare_sides("Call.run", seed, run)
    note("Call.run", note_exc[0])


# ---- NumpyStream.run / PandasStream.run ----------------------------------------------
def check_numpy_stream(seed):
    rng = random.Random(seed)
    table = gen_numpy_table(rng)
    cfg_dict = gen_config_dict(rng, table["n"])
    note_exc = [UNREACHED]

    def run(side):
        config, exc = outcome(build_config, side, cfg_dict)
        if exc is not None:
            return "config failed", exc
        stream, exc = outcome(build_numpy_stream, side, table)
        if exc is not None:
            return "stream failed", exc
        items, exc = outcome(stream.run, config)
        note_exc[0] = exc
        state = (stream.inp, stream.tinp, stream.zinp, stream.lat, stream.lon)
        extra = None
        if side is new:
            stat("NumpyStream.run", "yielded something", bool(items))
            stat("NumpyStream.run", "yielded flags", any(i.results for i in items or []))
            stat("NumpyStream.run", "proper subset", any(not i.subset_indexes.all() for i in items or []))
        if exc is None:
            # and what the collectors make of it
            extra = (
                outcome(side.results.collect_results_list, items),
                outcome(side.results.collect_results_dict, items),
            )
        return items, exc, state, extra

    compare_sides("NumpyStream.run", seed, run)
    note("NumpyStream.run", note_exc[0])


def check_pandas_stream(seed):
    rng = random.Random(seed)
    table = gen_pandas_table(rng)
    cfg_dict = gen_config_dict(rng, table["n"])
    note_exc = [UNREACHED]

    def run(side):
        config, exc = outcome(build_config, side, cfg_dict)
        if exc is not None:
            return "config failed", exc
        stream, exc = outcome(build_pandas_stream, side, table)
        if exc is not None:
            return "stream failed", exc
        items, exc = outcome(stream.run, config)
        note_exc[0] = exc
        extra = None
        if side is new:
            stat("PandasStream.run", "yielded something", bool(items))
            stat("PandasStream.run", "yielded flags", any(i.results for i in items or []))
            stat("PandasStream.run", "proper subset", any(not i.subset_indexes.all() for i in items or []))
        if exc is None:
            extra = (
                outcome(side.results.collect_results_list, items),
                outcome(side.results.collect_results_dict, items),
            )
        return items, exc, stream.df, stream.axis_columns, extra

    compare_sides("PandasStream.run", seed, run)
    note("PandasStream.run", note_exc[0])


# ---- PandasStore.save ----------------------------------------------------------------
def gen_filter(rng):
    r = rng.random()
    if r < 0.5:
        return None
    if r < 0.58:
        return []
    pool = [
        qartod.gross_range_test, qartod.spike_test, qartod.flat_line_test, qartod.aggregate,
        "temp", "sal", "9var", "pres", "gross_range_test", "spike_test", "location_test", "rollup", "", None,
    ]  # fmt: skip
    picked = rng.sample(pool, rng.randint(1, 4))
    return tuple(picked) if rng.random() < 0.1 else picked


def check_pandas_store(seed):
    rng = random.Random(seed)
    use_pandas = rng.random() < 0.5
    table = gen_pandas_table(rng) if use_pandas else gen_numpy_table(rng)
    cfg_dict = gen_config_dict(rng, table["n"])
    axes = rng.choice(
        [
            None, None, None,
            {"t": "time", "z": "z", "y": "lat", "x": "lon"},
            {"t": "when", "z": "depth", "y": "northing", "x": "easting"},
            {"t": "time", "z": "time", "y": "lat", "x": "lat"},
            {"t": "temp", "z": "sal", "y": "lat", "x": "lon"},
            {"t": "time", "z": "z"},
            {},
        ],
    )  # fmt: skip
    save_kwargs = {}
    if rng.random() < 0.7:
        save_kwargs["write_data"] = rng.choice([True, True, False, 1, 0, None])
    if rng.random() < 0.7:
        save_kwargs["write_axes"] = rng.choice([True, True, False, 1, None])
    if rng.random() < 0.6:
        save_kwargs["include"] = gen_filter(rng)
    if rng.random() < 0.6:
        save_kwargs["exclude"] = gen_filter(rng)
    aggregate_first = rng.random() < 0.3
    duplicate = rng.random() < 0.1
    note_exc = [UNREACHED]

    def run(side):
        config, exc = outcome(build_config, side, cfg_dict)
        if exc is not None:
            return "config failed", exc
        builder = build_pandas_stream if use_pandas else build_numpy_stream
        stream, exc = outcome(builder, side, table)
        if exc is not None:
            return "stream failed", exc
        items, exc = outcome(stream.run, config)
        if exc is not None:
            return "run failed", items, exc
        if duplicate:
            items = items + items[:1]
        store, exc = outcome(side.stores.PandasStore, items, copy.deepcopy(axes))
        if exc is not None:
            return "store failed", exc
        if aggregate_first:
            _, exc = outcome(store.compute_aggregate)
            if exc is not None:
                return "aggregate failed", exc
        kwargs = copy.deepcopy(save_kwargs)
        frame, exc = outcome(store.save, **kwargs)
        note_exc[0] = exc
        if side is new and frame is not None:
            stat("PandasStore.save", "frame has columns", len(frame.columns) > 0)
            stat("PandasStore.save", "frame has rows", len(frame) > 0)
        return frame, exc, kwargs, store.collected_results, store.axes, store.stream_ids

    compare_sides("PandasStore.save", seed, run)
    note("PandasStore.save", note_exc[0])


# --------------------------------------------------------------------------------------
def main():
    checks = [
        ("cf_safe_name", check_cf_safe_name),
        ("column_from_collected_result", check_column_name),
        ("evaluate_stack", check_evaluate_stack),
        ("collect_results_list", lambda seed: check_collect(seed, "collect_results_list")),
        ("collect_results_dict", lambda seed: check_collect(seed, "collect_results_dict")),
        ("Call.run", check_call_run),
        ("NumpyStream.run", check_numpy_stream),
        ("PandasStream.run", check_pandas_stream),
        ("PandasStore.save", check_pandas_store),
    ]
    for index, (label, check) in enumerate(checks):
        for case in range(N_CASES):
            check(1_000_003 * (index + 1) + case)
        raised = {k[1]: v for k, v in EXCEPTIONS.items() if k[0] == label}
        stats = {k[1]: v for k, v in STATS.items() if k[0] == label}
        print(
            f"{label}: {COUNTS.get(label, 0)} scenarios identical, {REACHED.get(label, 0)} reached the function"
            f" (raised: {raised or 'none'}; {stats})",
        )
        if os.environ.get("EQUIV_VERBOSE"):
            for k, v in SAMPLES.items():
                if k[0] == label:
                    print(f"      e.g. {k[1]}: {v}")
        sys.stdout.flush()
    if N_CASES >= 2500:
        for label, _ in checks:
            assert REACHED.get(label, 0) >= 2000, f"only {REACHED.get(label, 0)} effective cases for {label}"
    print("OK: refactored functions are indistinguishable from the originals")
    return 0


if __name__ == "__main__":
    sys.exit(main())
