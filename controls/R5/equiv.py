#!/usr/bin/env python
"""Differential check: refactored ioos_qc.qartod (this worktree) vs the original in /repo.

Run as:  PYTHONPATH=<worktree> /venv/bin/python equiv.py [N_PER_FUNCTION]

For every function under test at least N (default 3000) generated inputs are fed to both
implementations.  Compared: result type, dtype, shape, data (also under the mask), mask,
"mask is nomask", fill_value; exceptions by type (and message); warnings by category; the state
of the arguments after the call (no new mutation).  Exit status 0 iff no difference was found.
"""

import copy
import importlib.util
import inspect
import os
import random
import sys
import types
import warnings

import numpy as np
import pandas as pd

HERE = os.path.dirname(os.path.abspath(__file__))
ORIG_ROOT = "/repo/ioos_qc"
ORIG_NAME = "orig_ioos_qc"


# --------------------------------------------------------------------------------------
# loading
# --------------------------------------------------------------------------------------
def load_original():
    """Load /repo/ioos_qc as top-level package ``orig_ioos_qc``.

    The sources use absolute imports (``from ioos_qc.utils import ...``); these are redirected to
    the private copy so that the original does not share any module with the refactored package.
    """
    spec = importlib.util.spec_from_file_location(
        ORIG_NAME,
        os.path.join(ORIG_ROOT, "__init__.py"),
        submodule_search_locations=[ORIG_ROOT],
    )
    pkg = importlib.util.module_from_spec(spec)
    sys.modules[ORIG_NAME] = pkg
    spec.loader.exec_module(pkg)

    def load_sub(sub):
        fullname = f"{ORIG_NAME}.{sub}"
        path = os.path.join(ORIG_ROOT, f"{sub}.py")
        sspec = importlib.util.spec_from_file_location(fullname, path)
        mod = importlib.util.module_from_spec(sspec)
        with open(path) as f:
            src = f.read()
        src = src.replace("from ioos_qc.", f"from {ORIG_NAME}.").replace("from ioos_qc ", f"from {ORIG_NAME} ")
        sys.modules[fullname] = mod
        exec(compile(src, path, "exec"), mod.__dict__)  # noqa: S102
        setattr(pkg, sub, mod)
        return mod

    load_sub("utils")
    return load_sub("qartod")


import ioos_qc.qartod as NEW  # noqa: E402

assert os.path.abspath(NEW.__file__).startswith(HERE + os.sep), NEW.__file__
OLD = load_original()
assert OLD.__file__.startswith("/repo/"), OLD.__file__
assert OLD.isnan.__module__ == f"{ORIG_NAME}.utils", OLD.isnan.__module__
assert OLD is not NEW


# --------------------------------------------------------------------------------------
# canonical forms
# --------------------------------------------------------------------------------------
def canon(x):
    if isinstance(x, np.ma.MaskedArray):
        return (
            "MaskedArray",
            type(x).__name__,
            str(x.dtype),
            x.shape,
            repr(np.asarray(x.data).tolist()),
            repr(np.ma.getmaskarray(x).tolist()),
            x.mask is np.ma.nomask,
            repr(x.fill_value),
            bool(x.hardmask),
        )
    if isinstance(x, np.ndarray):
        return ("ndarray", type(x).__name__, str(x.dtype), x.shape, repr(x.tolist()))
    if isinstance(x, (OLD.ClimatologyConfig, NEW.ClimatologyConfig)):
        return ("ClimatologyConfig", canon(list(x.members)))
    if isinstance(x, tuple) and hasattr(x, "_fields"):
        return ("namedtuple", type(x).__name__, x._fields, tuple(canon(v) for v in x))
    if isinstance(x, (list, tuple)):
        return (type(x).__name__, tuple(canon(v) for v in x))
    if isinstance(x, dict):
        return ("dict", tuple((repr(k), canon(v)) for k, v in x.items()))
    if isinstance(x, (pd.Series, pd.Index)):
        return (type(x).__name__, str(x.dtype), repr(x.tolist()), repr(list(x.index)) if isinstance(x, pd.Series) else "")
    if isinstance(x, Holder):
        return ("Holder", canon(x.__dict__))
    return (type(x).__name__, repr(x))


class Holder:
    """Stand-in for a collected result (has a ``results`` attribute, or not)."""

    def __init__(self, **kw):
        self.__dict__.update(kw)


class CfgSpec:
    """Recipe for a ClimatologyConfig; materialised separately for each implementation."""

    def __init__(self, adds=(), raw=()):
        self.adds = list(adds)  # kwargs for .add()
        self.raw = list(raw)  # (tspan, fspan, vspan, zspan, period) with 2-tuples or None

    def build(self, mod):
        cfg = mod.ClimatologyConfig()
        for kw in self.adds:
            try:
                cfg.add(**copy.deepcopy(kw))
            except Exception:  # noqa: BLE001, S110
                pass
        for t, f, v, z, p in self.raw:
            mk = lambda s: None if s is None else mod.span(*s)  # noqa: E731
            cfg._members.append(mod.ClimatologyConfig.mem(mk(t), mk(f), mk(v), mk(z), p))
        return cfg


def materialise(x, mod):
    if isinstance(x, CfgSpec):
        return x.build(mod)
    if isinstance(x, list):
        return [materialise(v, mod) for v in x]
    if isinstance(x, tuple):
        return tuple(materialise(v, mod) for v in x)
    if isinstance(x, dict):
        return {k: materialise(v, mod) for k, v in x.items()}
    if isinstance(x, types.GeneratorType):
        raise TypeError("generators must be wrapped in GenOf")
    if isinstance(x, GenOf):
        return (v for v in materialise(x.items, mod))
    return copy.deepcopy(x)


class GenOf:
    """Marker: pass a fresh generator over ``items``."""

    def __init__(self, items):
        self.items = items


def run(func, args, kwargs):
    with warnings.catch_warnings(record=True) as caught:
        warnings.simplefilter("always")
        try:
            with np.errstate(all="warn"):
                out = ("ok", canon(func(*args, **kwargs)))
        except Exception as e:  # noqa: BLE001
            msg = str(e).replace(ORIG_NAME, "ioos_qc")
            if "0x" in msg:
                msg = "<address>"
            out = ("exc", type(e).__name__, msg)
    warns = tuple(sorted({(w.category.__name__) for w in caught}))
    return out, warns


def snapshot(args, kwargs):
    def conv(x):
        if isinstance(x, types.GeneratorType):
            return "<gen>"
        return canon(x)

    return (tuple(conv(a) for a in args), tuple((k, conv(v)) for k, v in kwargs.items()))


FAILS = []


def compare(label, getter, args, kwargs, extra=None):
    """Call both implementations; ``getter(mod)`` returns the callable."""
    a_old, k_old = materialise(args, OLD), materialise(kwargs, OLD)
    a_new, k_new = materialise(args, NEW), materialise(kwargs, NEW)
    r_old = run(getter(OLD, a_old), a_old[getter.skip :], k_old)
    r_new = run(getter(NEW, a_new), a_new[getter.skip :], k_new)
    s_old, s_new = snapshot(a_old, k_old), snapshot(a_new, k_new)
    ok = r_old == r_new and s_old == s_new
    if ok and extra is not None:
        ok = extra(a_old, r_old, a_new, r_new)
    if not ok:
        FAILS.append((label, args, kwargs, r_old, r_new))
        if len([f for f in FAILS if f[0] == label]) <= 3:
            print(f"MISMATCH in {label}:\n  args={args!r}\n  kwargs={kwargs!r}\n  old={r_old!r}\n  new={r_new!r}")
            if s_old != s_new:
                print(f"  argument state differs:\n   old={s_old!r}\n   new={s_new!r}")
    return r_old


def plain(name):
    def getter(mod, args):
        return getattr(mod, name)

    getter.skip = 0
    return getter


# --------------------------------------------------------------------------------------
# generators
# --------------------------------------------------------------------------------------
SPECIAL = [float("nan"), None, float("inf"), float("-inf")]


def gen_number(rng, lo=-5, hi=15):
    k = rng.random()
    if k < 0.5:
        return rng.randint(lo, hi)
    if k < 0.9:
        return round(rng.uniform(lo, hi), 2)
    if k < 0.95:
        return np.float64(round(rng.uniform(lo, hi), 1))
    return np.int64(rng.randint(lo, hi))


def gen_values(rng, n=None, p_special=0.25, lo=-5, hi=15, allow_shape=True):
    """A series of length 0..8 with NaN/None/inf in one of several containers."""
    if n is None:
        n = rng.randint(0, 8)
    vals = []
    for _ in range(n):
        if rng.random() < p_special:
            vals.append(rng.choice(SPECIAL))
        else:
            vals.append(gen_number(rng, lo, hi))
    k = rng.random()
    has_none = any(v is None for v in vals)
    if k < 0.45:
        out = vals
    elif k < 0.55:
        out = tuple(vals)
    elif k < 0.8:
        out = np.array(vals, dtype=object if has_none else np.float64)
    elif k < 0.9:
        arr = np.array([np.nan if v is None else v for v in vals], dtype=np.float64)
        out = np.ma.masked_array(arr, mask=[rng.random() < 0.3 for _ in vals])
    elif k < 0.95 and not has_none and all(isinstance(v, (int, np.integer)) for v in vals):
        out = np.array(vals, dtype=np.int32)
    else:
        out = pd.Series(vals, dtype=object if has_none else np.float64)
    if allow_shape and isinstance(out, np.ndarray) and not isinstance(out, np.ma.MaskedArray):
        if n in (4, 6, 8) and rng.random() < 0.3:
            out = out.reshape(2, n // 2)
        elif n == 1 and rng.random() < 0.3:
            out = out.reshape(())
    return out


def gen_span(rng, lo=-5, hi=15, allow_none=False, p_bad=0.12):
    if allow_none and rng.random() < 0.3:
        return None
    a, b = gen_number(rng, lo, hi), gen_number(rng, lo, hi)
    k = rng.random()
    if k < p_bad / 4:
        return (a,)
    if k < 2 * p_bad / 4:
        return (a, b, a)
    if k < 3 * p_bad / 4:
        return np.array([a, b])
    if k < p_bad:
        return rng.choice([(a, None), (None, None), (float("nan"), b), "ab", (a, "x"), 5])
    return rng.choice([(a, b), [a, b], [b, a], (b, a)])


def gen_gross_range(rng):
    inp = gen_values(rng)
    fail = gen_span(rng)
    kw = {}
    k = rng.random()
    if k < 0.35:
        sus = None
    elif k < 0.7 and isinstance(fail, (tuple, list)) and len(fail) == 2 and all(isinstance(v, (int, float, np.number)) for v in fail):
        lo, hi = sorted(fail)
        # mostly inside the fail span
        a = lo + (hi - lo) * rng.random() if rng.random() < 0.9 else lo - 1
        b = lo + (hi - lo) * rng.random() if rng.random() < 0.9 else hi + 1
        sus = rng.choice([(a, b), [b, a], (lo, hi)])
    else:
        sus = gen_span(rng, allow_none=True)
    form = rng.random()
    if form < 0.4:
        return (inp, fail, sus), kw
    if form < 0.7:
        return (inp, fail), {"suspect_span": sus}
    if form < 0.85:
        return (), {"suspect_span": sus, "fail_span": fail, "inp": inp}
    if sus is None:
        return (inp, fail), {}
    return (inp,), {"suspect_span": sus, "fail_span": fail}


def gen_location(rng):
    n = rng.randint(0, 8)
    lon = gen_values(rng, n, lo=-200, hi=200)
    lat = gen_values(rng, n if rng.random() < 0.93 else rng.randint(0, 8), lo=-100, hi=100)
    if hasattr(lon, "shape") and hasattr(lat, "shape") and lon.shape != lat.shape and rng.random() < 0.7:
        try:
            lat = np.array(lat).reshape(lon.shape)
        except Exception:  # noqa: BLE001, S110
            pass
    kw = {}
    k = rng.random()
    if k < 0.35:
        pass
    elif k < 0.42:
        kw["bbox"] = None
    elif k < 0.5:
        kw["bbox"] = rng.choice([(1, 2, 3), [0, 0, 1, 1, 2], np.array([0, 0, 1, 1]), "abcd", (0, 0, None, 1), (0, "a", 1, 1)])
    else:
        b = [gen_number(rng, -200, 200), gen_number(rng, -100, 100), gen_number(rng, -200, 200), gen_number(rng, -100, 100)]
        if rng.random() < 0.7:
            b = [min(b[0], b[2]), min(b[1], b[3]), max(b[0], b[2]), max(b[1], b[3])]
        kw["bbox"] = rng.choice([tuple(b), list(b)])
    k = rng.random()
    if k < 0.4:
        pass
    elif k < 0.5:
        kw["range_max"] = None
    elif k < 0.55:
        kw["range_max"] = rng.choice(["far", float("nan"), [1.0, 2.0]])
    else:
        kw["range_max"] = rng.choice([0, 1, 1e5, 5e5, 1e6, 5e6, np.float64(2e6), np.int64(3000000), 2e7])
    if rng.random() < 0.5:
        items = list(kw.items())
        rng.shuffle(items)
        return (), dict([("lat", lat), ("lon", lon)] + items)
    if "bbox" in kw and rng.random() < 0.3:
        b = kw.pop("bbox")
        if "range_max" in kw and rng.random() < 0.5:
            return (lon, lat, b, kw.pop("range_max")), kw
        return (lon, lat, b), kw
    return (lon, lat), kw


def gen_flags(rng, n):
    vals = [rng.choice([1, 1, 1, 2, 3, 4, 9, 0, 7]) for _ in range(n)]
    k = rng.random()
    if k < 0.5:
        return np.array(vals, dtype=rng.choice(["uint8", "int64", "float64"]))
    if k < 0.85:
        return np.ma.masked_array(np.array(vals, dtype="uint8"), mask=[rng.random() < 0.2 for _ in vals] if rng.random() < 0.5 else np.ma.nomask)
    if k < 0.9:
        return vals  # a list has no .shape -> AttributeError
    return np.array(vals, dtype="uint8").reshape(1, n)  # ndim != 1 -> AssertionError


def gen_aggregate(rng):
    n = rng.randint(0, 8)
    m = rng.randint(0, 5)
    items = []
    for _ in range(m):
        nn = n if rng.random() < 0.93 else rng.randint(0, 8)
        k = rng.random()
        if k < 0.92:
            items.append(Holder(results=gen_flags(rng, nn), name="x"))
        elif k < 0.96:
            items.append(Holder(result=gen_flags(rng, nn)))
        else:
            items.append(rng.choice([None, 3, "r"]))
    k = rng.random()
    if k < 0.6:
        res = items
    elif k < 0.75:
        res = tuple(items)
    elif k < 0.9:
        res = GenOf(items)
    elif k < 0.95:
        res = None
    else:
        res = 5
    if rng.random() < 0.5:
        return (res,), {}
    return (), {"results": res}


PERIODS = ["week", "weekofyear", "dayofyear", "dayofweek", "quarter", "year", "month", "day", "hour", "minute"]
BASE = pd.Timestamp("2020-01-01T00:00:00")


def gen_time_edge(rng):
    ts = BASE + pd.Timedelta(hours=rng.randint(-24 * 400, 24 * 400))
    k = rng.random()
    if k < 0.3:
        return ts
    if k < 0.5:
        return ts.isoformat()
    if k < 0.65:
        return ts.to_datetime64()
    if k < 0.8:
        return ts.to_pydatetime()
    if k < 0.9:
        return ts.strftime("%Y-%m-%d")
    return rng.choice([None, "not a date", 5, float("nan"), np.datetime64("NaT")])


def gen_add_kwargs(rng, p_bad=0.15, wide=False):
    kw = {}
    k = rng.random()
    if k < 0.45:
        period = None
    elif k < 0.9:
        period = rng.choice(PERIODS)
    else:
        period = rng.choice(["fortnight", "", "Week", 5, "isocalendar", "tz"]) if rng.random() < p_bad * 4 else rng.choice(PERIODS)
    if period is None or rng.random() < 0.05:
        t = [gen_time_edge(rng), gen_time_edge(rng)]
        t = rng.choice([tuple(t), list(t)])
        if rng.random() < p_bad / 3:
            t = rng.choice([t[:1], tuple(t) + (t[0],), np.array([1, 2]), "ab", None])
    else:
        t = gen_span(rng, 0, 60, p_bad=p_bad)
    if wide and rng.random() < 0.6:
        # a window that certainly contains the generated time stamps
        t = ("2018-01-01", pd.Timestamp("2022-01-01")) if period is None else (3000, 0)
    kw["tspan"] = t
    kw["vspan"] = gen_span(rng, p_bad=p_bad)
    if rng.random() < 0.6:
        kw["fspan"] = gen_span(rng, allow_none=True, p_bad=p_bad)
    if rng.random() < 0.6:
        kw["zspan"] = gen_span(rng, 0, 100, allow_none=True, p_bad=p_bad)
    if period is not None or rng.random() < 0.5:
        kw["period"] = period
    if rng.random() < 0.03:
        kw.pop(rng.choice(["tspan", "vspan"]))
    if rng.random() < 0.03:
        kw["bogus"] = 1
    items = list(kw.items())
    rng.shuffle(items)
    return dict(items)


def gen_add(rng):
    pre = CfgSpec(adds=[gen_add_kwargs(rng, p_bad=0.0) for _ in range(rng.randint(0, 2))])
    kw = gen_add_kwargs(rng)
    if rng.random() < 0.3 and "tspan" in kw and "vspan" in kw:
        args = [pre, kw.pop("tspan"), kw.pop("vspan")]
        if "fspan" in kw and rng.random() < 0.5:
            args.append(kw.pop("fspan"))
            if "zspan" in kw and rng.random() < 0.5:
                args.append(kw.pop("zspan"))
                if "period" in kw and rng.random() < 0.5:
                    args.append(kw.pop("period"))
        return tuple(args), kw
    return (pre,), kw


def method(name):
    def getter(mod, args):
        return getattr(args[0], name)

    getter.skip = 1
    return getter


def gen_raw_member(rng):
    """Members put into the config directly (bypassing add), still well-typed."""
    k = rng.random()
    if k < 0.45:
        period = None
        a = BASE + pd.Timedelta(hours=rng.randint(-200, 200))
        b = BASE + pd.Timedelta(hours=rng.randint(-200, 200))
        t = (min(a, b), max(a, b)) if rng.random() < 0.9 else (a, b)
    else:
        period = rng.choice(PERIODS)
        a, b = rng.randint(0, 60), rng.randint(0, 60)
        t = (min(a, b), max(a, b))
    if rng.random() < 0.5:
        t = (pd.Timestamp("2018-01-01"), pd.Timestamp("2022-01-01")) if period is None else (0, 3000)

    def sp(lo, hi, p_none):
        if rng.random() < p_none:
            return None
        x, y = gen_number(rng, lo, hi), gen_number(rng, lo, hi)
        if rng.random() < 0.05:
            x = float("nan")
        return (min(x, y), max(x, y)) if rng.random() < 0.95 else (x, y)

    return (t, sp(-5, 15, 0.4), sp(-5, 15, 0.0), sp(0, 100, 0.5), period)


def gen_cfgspec(rng):
    if rng.random() < 0.5:
        return CfgSpec(adds=[gen_add_kwargs(rng, p_bad=0.0, wide=True) for _ in range(rng.randint(0, 4))])
    return CfgSpec(raw=[gen_raw_member(rng) for _ in range(rng.randint(0, 4))])


def gen_times(rng, n, monotonic=True, kinds=None):
    if rng.random() < 0.5:
        steps = [rng.choice([1, 1, 1, 2, 5, 30]) * rng.choice([60, 3600, 3600, 86400, 1]) for _ in range(n)]
    else:
        step = rng.choice([1, 60, 3600, 86400, 86400 * 7])
        steps = [step] * n
    secs, cur = [], rng.randint(-10, 10) * 86400
    for s in steps:
        secs.append(cur)
        cur += s
    if not monotonic:
        rng.shuffle(secs)
    stamps = [BASE + pd.Timedelta(seconds=s) for s in secs]
    kind = rng.choice(kinds or ["dt64", "dt64", "dt64s", "index", "tzindex", "series", "epoch", "list_ts", "strings", "pydt"])
    if kind == "dt64":
        return np.array([s.to_datetime64() for s in stamps], dtype="datetime64[ns]")
    if kind == "dt64s":
        return np.array([s.to_datetime64() for s in stamps], dtype="datetime64[s]")
    if kind == "index":
        return pd.DatetimeIndex(stamps)
    if kind == "tzindex":
        return pd.DatetimeIndex(stamps).tz_localize("UTC").tz_convert("US/Eastern") if n else pd.DatetimeIndex(stamps, tz="UTC")
    if kind == "series":
        return pd.Series(pd.DatetimeIndex(stamps))
    if kind == "epoch":
        return [int((s - pd.Timestamp("1970-01-01")).total_seconds()) for s in stamps]
    if kind == "list_ts":
        return list(stamps)
    if kind == "strings":
        return [s.isoformat() for s in stamps]
    return [s.to_pydatetime() for s in stamps]


def gen_check(rng):
    n = rng.randint(0, 8)
    cfg = gen_cfgspec(rng)
    tinp = pd.DatetimeIndex(gen_times(rng, n, monotonic=rng.random() < 0.7, kinds=["dt64"]))
    if n and rng.random() < 0.1:
        tinp = tinp.insert(rng.randint(0, n - 1), pd.NaT)[:n]

    def marr(lo, hi, p_special):
        vals = [rng.choice([np.nan, np.inf, -np.inf, np.nan]) if rng.random() < p_special else float(gen_number(rng, lo, hi)) for _ in range(n)]
        k = rng.random()
        arr = np.array(vals, dtype=np.float64)
        if k < 0.7:
            return np.ma.masked_invalid(arr)
        if k < 0.8:
            return np.ma.masked_array(arr)  # nomask
        if k < 0.9:
            return np.ma.masked_array(arr, mask=[rng.random() < 0.4 for _ in vals])
        return np.ma.masked_all((n,), dtype=np.float64)

    inp = marr(-5, 15, 0.25)
    zinp = marr(0, 100, rng.choice([0.0, 0.2, 1.0]))
    if rng.random() < 0.03:
        zinp = np.ma.masked_invalid(np.array([1.0] * rng.randint(0, 8)))
    if n and rng.random() < 0.4:
        # a member whose edges coincide with actual data points (boundary behaviour)
        def edges(arr, fallback):
            good = [float(v) for v in np.asarray(arr.data) if np.isfinite(v)]
            if not good:
                return fallback
            a, b = rng.choice(good), rng.choice(good)
            return (min(a, b), max(a, b))

        stamps = [t for t in tinp if t is not pd.NaT]
        if stamps:
            a, b = rng.choice(stamps), rng.choice(stamps)
            cfg.raw.append(
                (
                    (min(a, b), max(a, b)),
                    edges(inp, None) if rng.random() < 0.5 else None,
                    edges(inp, (0, 1)),
                    edges(zinp, None) if rng.random() < 0.5 else None,
                    None,
                ),
            )
    if rng.random() < 0.5:
        return (cfg, tinp, inp, zinp), {}
    return (cfg,), {"zinp": zinp, "inp": inp, "tinp": tinp}


def gen_convert(rng):
    k = rng.random()
    if k < 0.2:
        c = gen_cfgspec(rng)
    else:
        dicts = [gen_add_kwargs(rng, p_bad=0.03) for _ in range(rng.randint(0, 4))]
        kk = rng.random()
        if kk < 0.6:
            c = dicts
        elif kk < 0.75:
            c = tuple(dicts)
        elif kk < 0.85:
            c = GenOf(dicts)
        elif kk < 0.9:
            c = dicts + [rng.choice([None, 5, [("tspan", (1, 2))]])]
        else:
            c = rng.choice([None, 5, {}, {"tspan": (1, 2)}, "ab"])
    if rng.random() < 0.5:
        return (c,), {}
    return (), {"config": c}


def convert_getter(mod, args):
    return mod.ClimatologyConfig.convert


convert_getter.skip = 0


def convert_identity(a_old, r_old, a_new, r_new):
    """An existing config is handed back as is (same object), otherwise a new one is built."""
    for mod, args in ((OLD, a_old), (NEW, a_new)):
        if args and isinstance(args[0], mod.ClimatologyConfig):
            if mod.ClimatologyConfig.convert(args[0]) is not args[0]:
                return False
    return True


def gen_climatology(rng):
    n = rng.randint(0, 8)
    k = rng.random()
    if k < 0.35:
        cfg = gen_cfgspec(rng)
    elif k < 0.95:
        cfg = [gen_add_kwargs(rng, p_bad=0.02, wide=True) for _ in range(rng.randint(0, 4))]
    else:
        cfg = rng.choice([None, 5, [None]])
    inp = gen_values(rng, n)
    tinp = gen_times(rng, n if rng.random() < 0.95 else rng.randint(0, 8), monotonic=rng.random() < 0.7)
    k = rng.random()
    if k < 0.5:
        zinp = gen_values(rng, n, lo=0, hi=100, p_special=rng.choice([0.0, 0.2]))
    elif k < 0.7:
        zinp = [None] * n
    elif k < 0.8:
        zinp = np.full(n, np.nan)
    elif k < 0.9:
        zinp = gen_values(rng, rng.randint(0, 8), lo=0, hi=100)
    else:
        zinp = rng.choice([None, [], 5.0])
    if hasattr(inp, "shape") and len(getattr(inp, "shape", ())) == 2 and rng.random() < 0.7:
        try:
            zinp = np.array(zinp, dtype=object).reshape(inp.shape)
            tinp = np.array(tinp).reshape(inp.shape) if isinstance(tinp, np.ndarray) else tinp
        except Exception:  # noqa: BLE001, S110
            pass
    form = rng.random()
    if form < 0.4:
        return (cfg, inp, tinp, zinp), {}
    if form < 0.7:
        return (cfg, inp), {"zinp": zinp, "tinp": tinp}
    return (), {"zinp": zinp, "tinp": tinp, "inp": inp, "config": cfg}


def gen_threshold(rng, allow_none=True):
    k = rng.random()
    if allow_none and k < 0.06:
        return None
    if k < 0.1:
        return rng.choice([float("nan"), np.float64(1.5), np.int64(2), True, "x", float("inf")])
    return rng.choice([0, 0.5, 1, 1.5, 2, 3, 5, 8, 0.01, 12.5])


def gen_attenuated(rng):
    n = rng.randint(0, 8)
    inp = gen_values(rng, n, p_special=rng.choice([0.0, 0.2, 0.5]))
    tinp = gen_times(rng, n if rng.random() < 0.95 else rng.randint(0, 8), monotonic=rng.random() < 0.9)
    if isinstance(inp, np.ndarray) and inp.ndim == 2 and isinstance(tinp, np.ndarray) and tinp.size == inp.size and rng.random() < 0.7:
        tinp = tinp.reshape(inp.shape)
    sus, fail = gen_threshold(rng), gen_threshold(rng)
    if rng.random() < 0.7 and isinstance(sus, (int, float)) and isinstance(fail, (int, float)) and not isinstance(sus, bool):
        sus, fail = max(sus, fail), min(sus, fail)
    kw = {}
    k = rng.random()
    if k < 0.4:
        pass
    elif k < 0.47:
        kw["test_period"] = rng.choice([None, 0, 0.0, False])
    else:
        kw["test_period"] = rng.choice([1, 60, 90, 3600, 7200, 86400, 86400 * 3, 1.5, np.int64(3600), True, "1h", -5])
    k = rng.random()
    if k < 0.3:
        kw["min_obs"] = rng.choice([None, 0, 1, 2, 3, 5, 9, np.int64(2), 2.0, -1])
    k = rng.random()
    if k < 0.3:
        kw["min_period"] = rng.choice([None, 0, 1, 60, 3600, 7200, 86400, 1.5])
    k = rng.random()
    if k < 0.35:
        pass
    elif k < 0.65:
        kw["check_type"] = "std"
    elif k < 0.93:
        kw["check_type"] = "range"
    else:
        kw["check_type"] = rng.choice(["Range", "", None, 5, ("std",), "stddev"])
    if rng.random() < 0.05:
        kw["extra_kw"] = 1
    form = rng.random()
    if form < 0.4:
        return (inp, tinp, sus, fail), kw
    if form < 0.6:
        items = [("fail_threshold", fail), ("suspect_threshold", sus), ("tinp", tinp), ("inp", inp)] + list(kw.items())
        rng.shuffle(items)
        return (), dict(items)
    if form < 0.8:
        return (inp, tinp), dict([("fail_threshold", fail), ("suspect_threshold", sus)] + list(kw.items()))
    # fully positional, with *args
    pos = [inp, tinp, sus, fail, kw.pop("test_period", None), kw.pop("min_obs", None), kw.pop("min_period", None), kw.pop("check_type", "std")]
    if rng.random() < 0.2:
        pos.append("surplus")
    return tuple(pos), kw


SUITES = [
    ("aggregate", plain("aggregate"), gen_aggregate, None),
    ("gross_range_test", plain("gross_range_test"), gen_gross_range, None),
    ("location_test", plain("location_test"), gen_location, None),
    ("ClimatologyConfig.add", method("add"), gen_add, None),
    ("ClimatologyConfig.convert", convert_getter, gen_convert, convert_identity),
    ("ClimatologyConfig.check", method("check"), gen_check, None),
    ("climatology_test", plain("climatology_test"), gen_climatology, None),
    ("attenuated_signal_test", plain("attenuated_signal_test"), gen_attenuated, None),
]


def main():
    n_per = int(sys.argv[1]) if len(sys.argv) > 1 else 3000
    only = sys.argv[2:] or None
    # metadata put on the functions by the decorator
    for name in ("aggregate", "gross_range_test", "location_test", "climatology_test", "attenuated_signal_test"):
        fo, fn = getattr(OLD, name), getattr(NEW, name)
        if str(inspect.signature(fo)).replace(ORIG_NAME, "ioos_qc") != str(inspect.signature(fn)) or {k: v for k, v in vars(fo).items()} != {k: v for k, v in vars(fn).items()}:
            FAILS.append((name, "signature/metadata", None, None, None))
            print(f"MISMATCH in signature/metadata of {name}")
    for name in ("add", "check", "convert", "values", "__init__"):
        if str(inspect.signature(getattr(OLD.ClimatologyConfig, name))) != str(inspect.signature(getattr(NEW.ClimatologyConfig, name))):
            FAILS.append((name, "signature", None, None, None))
            print(f"MISMATCH in signature of ClimatologyConfig.{name}")
    if sorted(n for n in vars(OLD) if not n.startswith("_")) != sorted(n for n in vars(NEW) if not n.startswith("_")):
        FAILS.append(("module", "public names", None, None, None))
        print("MISMATCH in public module-level names")

    for label, getter, gen, extra in SUITES:
        if only and label not in only:
            continue
        rng = random.Random(f"seed-{label}")
        outcomes = {}
        for _ in range(n_per):
            args, kwargs = gen(rng)
            r = compare(label, getter, args, kwargs, extra)
            key = r[0][0] if r[0][0] == "ok" else f"exc:{r[0][1]}"
            outcomes[key] = outcomes.get(key, 0) + 1
        nf = len([f for f in FAILS if f[0] == label])
        print(f"{label:28s} cases={n_per} mismatches={nf} outcomes={dict(sorted(outcomes.items()))}", flush=True)

    if FAILS:
        print(f"FAILED: {len(FAILS)} mismatching case(s)")
        return 1
    print("OK: no difference found")
    return 0


if __name__ == "__main__":
    sys.exit(main())
