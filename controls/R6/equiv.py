"""Differential check: refactored functions (this worktree) vs the originals in /repo.

Run as:  PYTHONPATH=<worktree> /venv/bin/python equiv.py
Exits 0 when every generated input gives the same outcome on both sides.
"""

import collections
import copy
import datetime as pydt
import importlib
import importlib.util
import logging
import random
import re
import sys
import types
import warnings
from pathlib import Path

import numpy as np
import pandas as pd

HERE = Path(__file__).resolve().parent
ORIG_ROOT = Path("/repo/ioos_qc")
N_CASES = 3200
SUBMODULES = ("utils", "qartod", "axds", "argo")


# --------------------------------------------------------------------------------------
# loading both packages
# --------------------------------------------------------------------------------------
def load_original():
    """Load /repo/ioos_qc as the top-level package ``ioos_qc_orig``.

    The original modules use absolute ``from ioos_qc.x import y`` imports, so while they
    are executed the name ``ioos_qc`` is aliased to the original package; afterwards every
    ``ioos_qc*`` entry is moved to ``ioos_qc_orig*`` so the worktree package can be
    imported under its real name.
    """
    assert not any(k == "ioos_qc" or k.startswith("ioos_qc.") for k in sys.modules)
    spec = importlib.util.spec_from_file_location(
        "ioos_qc_orig",
        str(ORIG_ROOT / "__init__.py"),
        submodule_search_locations=[str(ORIG_ROOT)],
    )
    pkg = importlib.util.module_from_spec(spec)
    sys.modules["ioos_qc_orig"] = pkg
    sys.modules["ioos_qc"] = pkg  # temporary alias
    spec.loader.exec_module(pkg)
    for sub in SUBMODULES:
        importlib.import_module("ioos_qc." + sub)
    for key in [k for k in sys.modules if k == "ioos_qc" or k.startswith("ioos_qc.")]:
        mod = sys.modules.pop(key)
        sys.modules["ioos_qc_orig" + key[len("ioos_qc"):]] = mod
    mods = {sub: sys.modules["ioos_qc_orig." + sub] for sub in SUBMODULES}
    for mod in mods.values():
        assert Path(mod.__file__).resolve().parent == ORIG_ROOT, mod.__file__
    return mods


def load_refactored():
    mods = {sub: importlib.import_module("ioos_qc." + sub) for sub in SUBMODULES}
    for mod in mods.values():
        assert Path(mod.__file__).resolve().parent == HERE / "ioos_qc", mod.__file__
    return mods


ORIG = load_original()
NEW = load_refactored()
for _sub in SUBMODULES:
    assert ORIG[_sub] is not NEW[_sub]
# the original argo/axds/qartod must be wired to the original helpers
assert ORIG["argo"].mapdates is ORIG["utils"].mapdates
assert ORIG["argo"].great_circle_distance is ORIG["utils"].great_circle_distance
assert NEW["argo"].mapdates is NEW["utils"].mapdates
assert ORIG["utils"].mapdates is not NEW["utils"].mapdates


# --------------------------------------------------------------------------------------
# outcome capture and comparison
# --------------------------------------------------------------------------------------
class ListHandler(logging.Handler):
    def __init__(self):
        super().__init__(level=logging.DEBUG)
        self.records = []

    def emit(self, record):
        self.records.append((record.name, record.levelname, record.getMessage()))


LOG_HANDLER = ListHandler()
_root_logger = logging.getLogger("ioos_qc")
_root_logger.addHandler(LOG_HANDLER)
_root_logger.setLevel(logging.DEBUG)
_root_logger.propagate = False


ADDRESS = re.compile(r"0x[0-9a-fA-F]+")


def describe(obj, depth=0):
    """Turn a result into a nested structure of plain comparable python values."""
    if depth > 12:
        return ("deep",)
    if obj is np.ma.masked:
        return ("masked-constant",)
    if isinstance(obj, np.ma.MaskedArray):
        mask = np.ma.getmaskarray(obj)
        return (
            "ma",
            type(obj).__name__,
            str(obj.dtype),
            obj.shape,
            raw_bytes(obj.data),
            mask.tolist(),
            obj.mask is np.ma.nomask,
            repr(obj.fill_value),
        )
    if isinstance(obj, np.ndarray):
        return ("nd", type(obj).__name__, str(obj.dtype), obj.shape, raw_bytes(obj))
    if isinstance(obj, np.generic):
        return ("npscalar", type(obj).__name__, str(obj.dtype), raw_bytes(np.asarray(obj)))
    if isinstance(obj, (pd.Series, pd.Index)):
        return ("pd", type(obj).__name__, str(obj.dtype), repr(obj.tolist()))
    if isinstance(obj, collections.abc.Mapping):
        try:
            items = list(obj.items())
        except Exception as exc:  # noqa: BLE001
            return ("mapping-error", type(exc).__name__)
        return (
            "map",
            type(obj).__name__,
            tuple((describe(k, depth + 1), describe(v, depth + 1)) for k, v in items),
        )
    if isinstance(obj, (list, tuple)):
        return ("seq", type(obj).__name__, tuple(describe(x, depth + 1) for x in obj))
    if isinstance(obj, float):
        return ("float", repr(obj))
    if isinstance(obj, (bool, int, str, bytes, type(None))):
        return (type(obj).__name__, obj)
    return ("other", type(obj).__name__, ADDRESS.sub("0x?", repr(obj)))


def raw_bytes(arr):
    arr = np.asarray(arr)
    if arr.dtype == object:
        return repr(arr.tolist())
    if arr.dtype.kind == "f":
        # all NaNs alike, but keep the sign of zero and every other bit
        canon = np.where(np.isnan(arr), np.array(np.nan, dtype=arr.dtype), arr)
        return np.ascontiguousarray(canon).tobytes()
    return np.ascontiguousarray(arr).tobytes()


class Outcome:
    def __init__(self):
        self.exc_type = None
        self.exc_msg = None
        self.value = None
        self.logs = None
        self.warns = None
        self.args_after = None
        self.extra = None

    def key(self):
        return (self.exc_type, self.value, self.logs, self.warns, self.args_after, self.extra)


def safe_copy(obj):
    try:
        return copy.deepcopy(obj)
    except Exception:  # noqa: BLE001  (immutable views such as mappingproxy: shared on purpose)
        return obj


def run(func, args, kwargs, extra=None):
    """Call func on private deep copies of the arguments and record everything observable."""
    args = tuple(safe_copy(a) for a in args)
    kwargs = {k: safe_copy(v) for k, v in kwargs.items()}
    out = Outcome()
    LOG_HANDLER.records = []
    with warnings.catch_warnings(record=True) as caught:
        warnings.simplefilter("always")
        try:
            res = func(*args, **kwargs)
        except Exception as exc:  # noqa: BLE001
            out.exc_type = type(exc).__name__
            out.exc_msg = str(exc)
            res = None
        else:
            out.value = describe(res)
    out.logs = tuple(LOG_HANDLER.records)
    out.warns = tuple(sorted({(w.category.__name__, str(w.message)) for w in caught}))
    out.args_after = (describe(list(args)), describe(kwargs))
    if extra is not None and out.exc_type is None:
        out.extra = extra(res, args, kwargs)
    return out


FAILURES = []
STATS = collections.OrderedDict()


def compare(label, f_old, f_new, cases, extra=None, own_messages=()):
    """Compare both implementations on every case; own_messages: exception types whose text is ours."""
    n = 0
    n_exc = 0
    bad = 0
    for args, kwargs in cases:
        n += 1
        old = run(f_old, args, kwargs, extra)
        new = run(f_new, args, kwargs, extra)
        same = old.key() == new.key()
        if same and old.exc_type in own_messages and old.exc_msg != new.exc_msg:
            # messages are only compared when neither side's text comes from numpy/pandas
            if not any(tok in (old.exc_msg + new.exc_msg) for tok in ("numpy", "ufunc", "operands", "array")):
                same = False
        if old.exc_type is not None:
            n_exc += 1
        if not same:
            bad += 1
            if len(FAILURES) < 25:
                FAILURES.append((label, args, kwargs, old, new))
    STATS[label] = (n, n_exc, bad)
    return bad


# --------------------------------------------------------------------------------------
# generators
# --------------------------------------------------------------------------------------
R = random.Random(20260917)
NAN = float("nan")


def rnum(kind=None):
    kind = kind or R.choice(["int", "float", "small", "big", "neg"])
    if kind == "int":
        return R.randint(-5, 12)
    if kind == "float":
        return round(R.uniform(-10, 30), R.choice([0, 1, 3]))
    if kind == "small":
        return R.choice([0, 0.0, -0.0, 1e-9, 0.5, 1, 2])
    if kind == "big":
        return R.choice([1e6, 1e12, 255, 256, 65536, float("inf"), -float("inf")])
    return -abs(R.uniform(0, 20))


def series(length=None, holes=True, ints=False, monotone=None):
    """A python list of numbers of length 0..8, possibly with NaN / None holes."""
    n = R.randint(0, 8) if length is None else length
    if monotone is not None:
        start = R.uniform(-5, 5)
        steps = [R.choice([0, 0.5, 1, 2, 3.25]) for _ in range(n)]
        vals = list(np.cumsum(steps) * monotone + start)
        if R.random() < 0.3 and n > 2:
            i, j = R.sample(range(n), 2)
            vals[i], vals[j] = vals[j], vals[i]
    elif ints:
        vals = [R.randint(-3, 9) for _ in range(n)]
    else:
        pool = R.choice(["int", "float", "mixed", "flat", "spiky"])
        if pool == "int":
            vals = [R.randint(-3, 9) for _ in range(n)]
        elif pool == "float":
            vals = [round(R.uniform(-3, 9), 2) for _ in range(n)]
        elif pool == "flat":
            v = rnum()
            vals = [v for _ in range(n)]
        elif pool == "spiky":
            base = R.uniform(0, 5)
            vals = [base + (R.choice([0, 0, 0, 7, -7, 30])) for _ in range(n)]
        else:
            vals = [rnum() for _ in range(n)]
    vals = [float(v) if isinstance(v, np.floating) else v for v in vals]
    if holes and n and R.random() < 0.5:
        for _ in range(R.randint(1, max(1, n // 2))):
            vals[R.randrange(n)] = R.choice([NAN, None, NAN, float("inf")])
    return vals


def carrier(vals, allow_2d=True):
    """Wrap a python list into one of the containers callers use."""
    kind = R.choice(["list", "list", "tuple", "nd", "nd", "ndf", "ma", "series", "2d", "int-nd"])
    has_none = any(v is None for v in vals)
    if kind == "list":
        return list(vals)
    if kind == "tuple":
        return tuple(vals)
    if kind == "nd":
        return np.array(vals)
    if kind == "ndf":
        try:
            return np.array(vals, dtype=np.float64)
        except (TypeError, ValueError):
            return np.array(vals)
    if kind == "ma":
        try:
            arr = np.ma.masked_invalid(np.array(vals, dtype=np.float64))
        except (TypeError, ValueError):
            return list(vals)
        if arr.size and R.random() < 0.5:
            arr[R.randrange(arr.size)] = np.ma.masked
        return arr
    if kind == "series":
        return pd.Series(vals, dtype=object if has_none and R.random() < 0.3 else None)
    if kind == "int-nd":
        clean = [0 if (v is None or v != v or abs(v) == float("inf")) else max(-100, min(100, int(v))) for v in vals]
        if all(c >= 0 for c in clean):
            dt = R.choice([np.int8, np.uint8, np.int16, np.uint16, np.int64, np.uint64])
        else:
            dt = R.choice([np.int8, np.int16, np.int64])
        return np.array(clean, dtype=dt)
    if kind == "2d" and allow_2d and len(vals) in (4, 6, 8):
        try:
            return np.array(vals, dtype=np.float64).reshape(2, -1)
        except (TypeError, ValueError):
            return list(vals)
    return list(vals)


BASE_T = np.datetime64("2020-03-01T00:00:00")


def times(n, style=None):
    """n time stamps in one of the supported carriers (sorted, repeated, reversed, gaps, NaT...)."""
    style = style or R.choice(
        ["epoch", "epochf", "dt64s", "dt64ns", "dt64ms", "index", "index-tz", "series", "series-tz", "pydt", "stamps", "str", "dt64D"],
    )
    steps = [R.choice([0, 1, 1, 5, 10, 60, 3600, 0.5, 86400]) for _ in range(n)]
    if R.random() < 0.15:
        steps = [-s for s in steps]
    secs = list(np.cumsum(steps))
    if R.random() < 0.15 and n > 1:
        R.shuffle(secs)
    secs = [float(s) for s in secs]
    whole = [int(s) for s in secs]
    if style == "epoch":
        vals = [1583020800 + s for s in whole]
        if n and R.random() < 0.2:
            vals[R.randrange(n)] = None
        return R.choice([list, np.array, tuple])(vals)
    if style == "epochf":
        vals = [1583020800.0 + s for s in secs]
        if n and R.random() < 0.2:
            vals[R.randrange(n)] = NAN
        return R.choice([list, np.array])(vals)
    arr = BASE_T + np.array([int(s * 1000) for s in secs], dtype="timedelta64[ms]")
    arr = arr.astype("datetime64[ms]") if n else np.array([], dtype="datetime64[ms]")
    if n and R.random() < 0.15:
        arr[R.randrange(n)] = np.datetime64("NaT")
    if style == "dt64s":
        return arr.astype("datetime64[s]")
    if style == "dt64ns":
        return arr.astype("datetime64[ns]")
    if style == "dt64ms":
        return arr
    if style == "dt64D":
        return arr.astype("datetime64[D]")
    if style == "index":
        return pd.DatetimeIndex(arr)
    if style == "index-tz":
        return pd.DatetimeIndex(arr).tz_localize("UTC").tz_convert(R.choice(["UTC", "US/Eastern", "Asia/Tokyo"]))
    if style == "series":
        return pd.Series(arr)
    if style == "series-tz":
        return pd.Series(pd.DatetimeIndex(arr).tz_localize(R.choice(["UTC", "Europe/Paris"])))
    if style == "pydt":
        return [None if np.isnat(a) else a.astype("datetime64[us]").astype(pydt.datetime) for a in arr]
    if style == "stamps":
        return [pd.Timestamp(a) for a in arr]
    return [str(a) for a in arr if not np.isnat(a)] if style == "str" else arr


def threshold(allow_none=True):
    pool = [0, 0.0, 0.5, 1, 2, 3.5, 7, 10, 30, -1, -0.5, 1e-6, 100, NAN, float("inf"), np.float64(2.5), np.int64(3), True]
    if allow_none:
        pool += [None, None, None, None]
    return R.choice(pool)


def call(args, **kwargs):
    return (tuple(args), kwargs)


# ----- utils.isnan
def gen_isnan():
    arr = np.ma.masked_invalid([1.0, NAN])
    pool = [
        None, np.nan, NAN, float("nan"), np.float64("nan"), np.float32("nan"), np.ma.masked, arr[1], arr[0],
        0, 1, -1.5, "nan", "", [], (), {}, np.array([np.nan]), np.array(np.nan), pd.NaT, np.datetime64("NaT"),
        np.timedelta64("NaT"), False, True, np.nan * 1, np.ma.masked_array(1.0, mask=True), np.ma.masked_array([1.0], mask=[True])[0],
        object(), np.ma.nomask, pd.NA, complex("nan"), math_nan(),
    ]
    for i in range(N_CASES):
        if i < len(pool) * 3:
            yield call([pool[i % len(pool)]])
        elif R.random() < 0.5:
            yield call([R.choice(pool)])
        else:
            vals = series()
            c = carrier(vals)
            try:
                v = c[R.randrange(len(c))] if len(c) else c
            except Exception:  # noqa: BLE001
                v = c
            yield call([v])


def math_nan():
    import math

    return math.nan


# ----- utils.isfixedlength
class MyList(list):
    pass


class FormatList(list):
    def __format__(self, spec):
        return "FORMATTED"

    def __str__(self):
        return "STR"


def gen_isfixedlength():
    for _ in range(N_CASES):
        n = R.randint(0, 6)
        items = [R.choice([1, "a", None, NAN, (1, 2)]) for _ in range(n)]
        lst = R.choice(
            [list, list, tuple, tuple, MyList, FormatList, lambda x: np.array(x, dtype=object), lambda x: set(map(str, x)), str, lambda x: iter(x), lambda x: None, lambda x: {i: v for i, v in enumerate(x)}, lambda x: pd.Series(x, dtype=object), lambda x: collections.deque(x), lambda x: len(x)],
        )(items)
        delta = R.choice([0, 0, 0, 1, -1, 2])
        m = n + delta
        length = R.choice([m, m, m, float(m), np.int64(m), str(m), None, NAN, bool(m), [m], (m,), np.array([m]), np.array([m, m]), np.array(m)])
        if R.random() < 0.2:
            yield call([], lst=lst, length=length)
        elif R.random() < 0.1:
            yield call([], length=length, lst=lst)
        else:
            yield call([lst, length])


# ----- utils.mapdates
def gen_mapdates():
    junk = [None, "abc", ["abc", "def"], {}, {"a": 1}, object(), [object()], [[1, 2], [3]], 5, 5.5, NAN, True,
            np.datetime64("2020-01-01"), pd.Timestamp("2020-01-01"), pd.Timestamp("2020-01-01", tz="UTC"), pd.NaT,
            "2020-01-01", ["2020-01-01", "bad"], [], (), np.array([]), np.array(["2020-01-01", "2021-05-05T01:02:03"]),
            pd.Series([], dtype=float), pd.Series(["a", "b"]), pd.Series([1.5, NAN]), pd.Index([1, 2, 3]),
            pd.to_timedelta([1, 2], unit="s"), np.array([1, 2], dtype="timedelta64[s]"), np.arange(6).reshape(2, 3),
            pydt.datetime(2020, 1, 1), pydt.date(2020, 1, 1), [pydt.date(2020, 1, 1)], pd.Categorical(["a"]),
            pd.period_range("2020-01", periods=3, freq="M"), pd.Series(pd.period_range("2020-01", periods=3, freq="M")),
            np.ma.masked_array([1, 2, 3], mask=[0, 1, 0]), [1e20], [-1e20], [2**63], np.array([2**63], dtype=np.uint64),
            pd.DatetimeIndex(["2020-01-01"], tz="UTC").tz_convert("US/Pacific"), np.array(["2020", "NaT"], dtype="datetime64[Y]"),
            np.array([[0, 1], [2, 3]], dtype="datetime64[s]"), [np.datetime64("2020-01-01"), np.datetime64("NaT")],
            [pd.Timestamp("2020-01-01", tz="UTC"), pd.Timestamp("2020-01-02", tz="UTC")], [pd.Timestamp("2020-01-01", tz="UTC"), pd.Timestamp("2020-01-02")]]
    for i in range(N_CASES):
        if i < len(junk) * 2:
            yield call([copy.deepcopy(junk[i % len(junk)])])
            continue
        r = R.random()
        if r < 0.6:
            yield call([times(R.randint(0, 8))])
        elif r < 0.8:
            yield call([carrier(series())])
        elif r < 0.9:
            t = times(R.randint(1, 8))
            try:
                yield call([t[0]])
            except Exception:  # noqa: BLE001
                yield call([t])
        else:
            yield call([], dates=times(R.randint(0, 8)))


# ----- utils.dict_depth / dict_update
def rand_tree(depth=0, mapping_types=(dict, dict, collections.OrderedDict)):
    if depth > 3 or R.random() < 0.3:
        return R.choice([1, "x", None, [], [1, {"a": 1}], (), 2.5, {}, collections.OrderedDict(), NAN, [{}]])
    n = R.randint(0, 3)
    out = R.choice(mapping_types)()
    for _ in range(n):
        out[R.choice(["a", "b", "c", "d", 1, None, (1, 2)])] = rand_tree(depth + 1, mapping_types)
    return out


class MyDict(dict):
    pass


class FalsyDict(dict):
    def __bool__(self):
        return False


class ROMap(collections.abc.Mapping):
    def __init__(self, data):
        self._d = dict(data)

    def __getitem__(self, k):
        return self._d[k]

    def __iter__(self):
        return iter(self._d)

    def __len__(self):
        return len(self._d)

    def __repr__(self):
        return "ROMap(%r)" % (self._d,)


def gen_dict_depth():
    specials = [None, 0, [], [{}], {}, {"a": {}}, FalsyDict(a={"b": 1}), FalsyDict(), MyDict(a=MyDict()), ROMap({"a": {}}),
                types.MappingProxyType({"a": {"b": {}}}), {"a": ROMap({"a": {}})}, collections.defaultdict(dict, a={"q": {}}),
                collections.Counter("aab"), {"a": FalsyDict(a={"b": {"c": 1}})}]
    for i in range(N_CASES):
        if i < len(specials) * 2:
            yield call([copy.deepcopy(specials[i % len(specials)]) if not isinstance(specials[i % len(specials)], types.MappingProxyType) else specials[i % len(specials)]])
        elif R.random() < 0.1:
            yield call([], d=rand_tree(mapping_types=(dict, MyDict, FalsyDict, collections.OrderedDict)))
        else:
            yield call([rand_tree(mapping_types=(dict, MyDict, FalsyDict, collections.OrderedDict, dict))])


def gen_dict_update():
    mt = (dict, dict, collections.OrderedDict, MyDict)
    for _ in range(N_CASES):
        r = R.random()
        if r < 0.7:
            d, u = rand_tree(0, mt), rand_tree(0, mt)
            if not isinstance(u, dict) and R.random() < 0.8:
                u = R.choice(mt)(a=rand_tree(1, mt), b=rand_tree(2, mt))
            if R.random() < 0.5 and isinstance(d, dict) and isinstance(u, dict):
                # overlapping structure, so nested merges really happen
                d = copy.deepcopy(u)
                for k in list(d):
                    if R.random() < 0.4:
                        d[k] = rand_tree(1, mt)
                    elif R.random() < 0.3:
                        del d[k]
                for k in list(u):
                    if R.random() < 0.3:
                        u[k] = rand_tree(1, mt)
        elif r < 0.8:
            d, u = R.choice([None, 5, "s", [], [1], (), NAN]), rand_tree(0, mt)
        elif r < 0.85:
            d, u = rand_tree(0, mt), R.choice([None, 5, "s", [], [("a", 1)], ()])
        elif r < 0.92:
            d = collections.defaultdict(dict, {"a": {"x": 1}}) if R.random() < 0.5 else collections.defaultdict(lambda: 7)
            u = rand_tree(0, mt)
        else:
            base = rand_tree(0, mt) if R.random() < 0.5 else {"a": {"b": 1}}
            d, u = ROMap(base if isinstance(base, dict) else {}), rand_tree(0, mt)
        if R.random() < 0.1:
            yield call([], u=u, d=d)
        else:
            yield call([d, u])


def dict_update_extra(res, args, kwargs):
    d = kwargs["d"] if "d" in kwargs else args[0]
    u = kwargs["u"] if "u" in kwargs else args[1]
    alias = [res is d, res is u]
    if isinstance(u, collections.abc.Mapping) and isinstance(res, collections.abc.Mapping):
        for k in u:
            try:
                alias.append(res[k] is u[k])
            except Exception as exc:  # noqa: BLE001
                alias.append(type(exc).__name__)
            if isinstance(d, collections.abc.Mapping) and k in d:
                alias.append(res[k] is d[k])
    return tuple(alias)


# ----- utils.great_circle_distance
def coords(n, lat=True):
    lim = 90 if lat else 180
    style = R.choice(["walk", "rand", "same", "edge"])
    if style == "walk":
        start = R.uniform(-lim * 0.9, lim * 0.9)
        vals = [start + i * R.choice([0, 0.001, 0.01, 0.5]) for i in range(n)]
    elif style == "rand":
        vals = [R.uniform(-lim, lim) for _ in range(n)]
    elif style == "same":
        v = R.uniform(-lim, lim)
        vals = [v] * n
    else:
        vals = [R.choice([lim, -lim, 0, lim + 5, -lim - 5, 360, 1e6]) for _ in range(n)]
    if n and R.random() < 0.3:
        vals[R.randrange(n)] = NAN
    return vals


def gen_gcd():
    for _ in range(N_CASES):
        n = R.randint(0, 8)
        m = n if R.random() < 0.92 else R.randint(0, 8)
        la, lo = coords(n, True), coords(m, False)
        kind = R.choice(["nd", "nd", "ma", "ma", "mixed", "list", "int", "2d", "f32"])
        if kind == "nd":
            a, b = np.array(la, dtype=float), np.array(lo, dtype=float)
        elif kind == "ma":
            a, b = np.ma.masked_invalid(np.array(la, dtype=float)), np.ma.masked_invalid(np.array(lo, dtype=float))
            if n and R.random() < 0.3:
                a[R.randrange(n)] = np.ma.masked
        elif kind == "mixed":
            a, b = np.ma.masked_invalid(np.array(la, dtype=float)), np.array(lo, dtype=float)
            if R.random() < 0.5:
                a, b = np.array(la, dtype=float), np.ma.masked_invalid(np.array(lo, dtype=float))
        elif kind == "list":
            a, b = la, lo
            if R.random() < 0.5:
                b = np.array(lo, dtype=float)
        elif kind == "int":
            a = np.array([0 if v != v else int(max(-90, min(90, v))) for v in la], dtype=np.int64)
            b = np.array([0 if v != v else int(max(-180, min(180, v))) for v in lo], dtype=np.int32)
        elif kind == "f32":
            a, b = np.array(la, dtype=np.float32), np.array(lo, dtype=np.float32)
        else:
            if n in (4, 6, 8) and m == n:
                a, b = np.array(la, dtype=float).reshape(2, -1), np.array(lo, dtype=float).reshape(2, -1)
            else:
                a, b = np.array(la, dtype=float), pd.Series(lo, dtype=float)
        if R.random() < 0.1:
            yield call([], lon_arr=b, lat_arr=a)
        else:
            yield call([a, b])


# ----- axds.valid_range_test
def gen_valid_range():
    dtypes = [None, None, None, None, np.float64, np.float32, np.int32, np.uint8, np.int64, "datetime64[ns]", "datetime64[s]",
              np.dtype("float64"), np.dtype("int16"), bool, object, "U5", "foo", float, int, "timedelta64[s]", np.complex128]
    for _ in range(N_CASES):
        n = R.randint(0, 8)
        family = R.choice(["num", "num", "num", "time", "time", "weird"])
        if family == "num":
            inp = carrier(series(n))
            lo, hi = sorted([rnum("int"), rnum("float")])
            if R.random() < 0.15:
                lo, hi = hi, lo
            span_vals = [lo, hi]
            for i in (0, 1):
                if R.random() < 0.2:
                    span_vals[i] = R.choice([None, NAN, float("inf"), -float("inf")])
            if R.random() < 0.4 and n:
                # a bound that coincides with a data point exercises inclusive / exclusive
                flat = [v for v in np.ravel(np.ma.filled(np.ma.masked_invalid(np.array(series_clean(inp), dtype=float)), 0.0))]
                if flat:
                    span_vals[R.randrange(2)] = R.choice(flat)
        elif family == "time":
            inp = times(n)
            a = BASE_T + np.timedelta64(R.choice([-10, 0, 1, 5, 60, 3600]), "s")
            b = a + np.timedelta64(R.choice([0, 1, 10, 3600, 86400 * 2]), "s")
            conv = R.choice([
                lambda x: x, lambda x: x.astype("datetime64[ns]"), lambda x: pd.Timestamp(x), lambda x: str(x),
                lambda x: x.astype(pydt.datetime), lambda x: int(x.astype("datetime64[s]").astype(np.int64)),
            ])
            span_vals = [conv(a), conv(b)]
            for i in (0, 1):
                if R.random() < 0.15:
                    span_vals[i] = R.choice([None, np.datetime64("NaT"), pd.NaT])
        else:
            inp = R.choice([["a", "b"], [None, None], [], {}, {"a": 1}, None, 5, [[1, 2], [3]], [object()], "abc", np.array(["x"]),
                            [True, False], np.array([1 + 2j]), pd.Series(["a"]), pd.Series([], dtype=object), [[1, 2], [3, 4]], np.array(5.0)])
            span_vals = R.choice([[0, 1], ["a", "c"], [None, None], [1], [], [1, 2, 3], [NAN, 5]])
        span = R.choice([tuple, tuple, list, np.array])(span_vals)
        if R.random() < 0.05:
            span = R.choice([None, 5, span_vals[:1], tuple(span_vals) + (1,), "ab", {}])
        kwargs = {}
        if R.random() < 0.6:
            dt = R.choice(dtypes)
            if family == "time" and R.random() < 0.6:
                dt = R.choice(["datetime64[ns]", "datetime64[s]", np.dtype("datetime64[ms]"), None])
            kwargs["dtype"] = dt
        for name in ("start_inclusive", "end_inclusive"):
            if R.random() < 0.6:
                kwargs[name] = R.choice([True, True, False, False, 1, 0, None, "yes", np.True_, np.False_])
        if R.random() < 0.1:
            kwargs["valid_span"] = span
            kwargs["inp"] = inp
            kwargs = dict(R.sample(list(kwargs.items()), len(kwargs)))
            yield call([], **kwargs)
        else:
            yield call([inp, span], **kwargs)


def series_clean(c):
    try:
        return [NAN if v is None else v for v in np.ravel(np.ma.filled(c, NAN) if isinstance(c, np.ma.MaskedArray) else np.asarray(c, dtype=object))]
    except Exception:  # noqa: BLE001
        return []


# ----- argo.pressure_increasing_test
def gen_pressure():
    junk = [[], [1], [NAN], None, 5, "abc", ["a", "b"], [[1, 2], [3]], {}, [None, 1], [True, False, True], np.array(5.0),
            np.array([[1, 2, 3], [3, 2, 1]]), np.array([[1.0, 2.0], [0.5, 3.0], [0.2, 9.0]]), [1, 1, 1], [2, 1, 0], [0, 0], [1, NAN, 2]]
    for i in range(N_CASES):
        if i < len(junk) * 2:
            yield call([copy.deepcopy(junk[i % len(junk)])])
            continue
        n = R.randint(0, 8)
        r = R.random()
        if r < 0.45:
            vals = series(n, monotone=R.choice([1, -1]), holes=R.random() < 0.3)
        else:
            vals = series(n)
        c = carrier(vals)
        if R.random() < 0.05:
            yield call([], inp=c)
        else:
            yield call([c])


# ----- argo.speed_test
def gen_speed():
    for _ in range(N_CASES):
        n = R.randint(0, 8)
        la, lo = coords(n, True), coords(n, False)
        if R.random() < 0.5:
            # small steps so speeds land around the thresholds
            la = [10 + i * R.choice([0, 1e-5, 1e-4, 1e-3]) for i in range(n)]
            lo = [-70 + i * R.choice([0, 1e-5, 1e-4, 1e-3]) for i in range(n)]
            for vals in (la, lo):
                if n and R.random() < 0.3:
                    vals[R.randrange(n)] = R.choice([NAN, None])
        if R.random() < 0.07:
            lo = coords(R.randint(0, 8), False)
        wrap = R.choice([list, list, np.array, tuple, lambda v: pd.Series(v, dtype=float), lambda v: np.ma.masked_invalid(np.array(v, dtype=float))])
        try:
            lat, lon = wrap(la), wrap(lo)
        except (TypeError, ValueError):
            lat, lon = list(la), list(lo)
        t = times(n if R.random() < 0.93 else R.randint(0, 8))
        if n in (4, 6, 8) and R.random() < 0.08:
            try:
                lat = np.array(la, dtype=float).reshape(2, -1)
                lon = np.array(lo, dtype=float).reshape(2, -1)
                t = np.asarray(times(n, "dt64s")).reshape(2, -1)
            except (TypeError, ValueError):
                pass
        st, ft = threshold(R.random() < 0.1), threshold(R.random() < 0.1)
        if R.random() < 0.6:
            st, ft = R.choice([0.01, 0.1, 1, 5, 11, 111]), R.choice([0.02, 0.5, 2, 10, 50, 1000])
        if R.random() < 0.2:
            kw = [("lon", lon), ("lat", lat), ("tinp", t), ("suspect_threshold", st), ("fail_threshold", ft)]
            R.shuffle(kw)
            yield call([], **dict(kw))
        else:
            yield call([lon, lat, t, st, ft])


# ----- qartod.spike_test
def gen_spike():
    methods = ["average"] * 22 + ["differential"] * 22 + ["Average", "", None, "diff", 1, b"average", ["average"], np.str_("average"), np.array(["average", "x"])]
    for _ in range(N_CASES):
        c = carrier(series())
        kwargs = {}
        st, ft = threshold(), threshold()
        style = R.random()
        if style < 0.5:
            args = [c, st, ft]
        elif style < 0.7:
            args = [c]
            kwargs = {"fail_threshold": ft, "suspect_threshold": st}
        elif style < 0.8:
            args = [c, st]
        elif style < 0.9:
            args = [c]
            if R.random() < 0.5:
                kwargs["fail_threshold"] = ft
        else:
            args = []
            kwargs = {"suspect_threshold": st, "inp": c}
        if R.random() < 0.75:
            m = R.choice(methods)
            if len(args) == 3 and R.random() < 0.5:
                args.append(m)
            else:
                kwargs["method"] = m
        yield call(args, **kwargs)


# ----- qartod.rate_of_change_test
def gen_roc():
    for _ in range(N_CASES):
        n = R.randint(0, 8)
        c = carrier(series(n))
        t = times(n if R.random() < 0.93 else R.randint(0, 8))
        if isinstance(c, np.ndarray) and c.ndim == 2 and R.random() < 0.7:
            t = np.asarray(times(c.size, "dt64s")).reshape(c.shape)
        th = threshold(R.random() < 0.15)
        if R.random() < 0.5:
            th = R.choice([0.001, 0.01, 0.1, 0.5, 1, 2])
        if R.random() < 0.2:
            kw = [("tinp", t), ("threshold", th), ("inp", c)]
            R.shuffle(kw)
            yield call([], **dict(kw))
        else:
            yield call([c, t, th])


# ----- qartod.density_inversion_test
def gen_density():
    for _ in range(N_CASES):
        n = R.randint(0, 8)
        dens = series(n) if R.random() < 0.5 else series(n, monotone=R.choice([1, 1, -1]), holes=R.random() < 0.4)
        m = n if R.random() < 0.92 else R.randint(0, 8)
        depth = series(m, monotone=R.choice([1, -1]), holes=R.random() < 0.4) if R.random() < 0.75 else series(m)
        a, b = carrier(dens), carrier(depth)
        if isinstance(a, np.ndarray) and a.ndim == 2 and R.random() < 0.7:
            try:
                b = np.array(depth, dtype=float).reshape(a.shape)
            except (TypeError, ValueError):
                pass
        st, ft = threshold(), threshold()
        if R.random() < 0.5:
            st, ft = R.choice([None, -0.5, -0.01, 0, -1, -3]), R.choice([None, -1, -0.03, 0, -2, -5])
        style = R.random()
        if style < 0.6:
            yield call([a, b, st, ft])
        elif style < 0.75:
            yield call([a, b], fail_threshold=ft, suspect_threshold=st)
        elif style < 0.85:
            yield call([a, b, st])
        elif style < 0.92:
            yield call([a, b])
        else:
            yield call([], zinp=b, fail_threshold=ft, inp=a)


# --------------------------------------------------------------------------------------
def main():
    plan = [
        ("utils.mapdates", "utils", "mapdates", gen_mapdates, None, ()),
        ("utils.isnan", "utils", "isnan", gen_isnan, None, ()),
        ("utils.isfixedlength", "utils", "isfixedlength", gen_isfixedlength, None, ("TypeError", "ValueError")),
        ("utils.great_circle_distance", "utils", "great_circle_distance", gen_gcd, None, ()),
        ("utils.dict_depth", "utils", "dict_depth", gen_dict_depth, None, ()),
        ("utils.dict_update", "utils", "dict_update", gen_dict_update, dict_update_extra, ()),
        ("axds.valid_range_test", "axds", "valid_range_test", gen_valid_range, None, ("ValueError",)),
        ("argo.speed_test", "argo", "speed_test", gen_speed, None, ("ValueError",)),
        ("argo.pressure_increasing_test", "argo", "pressure_increasing_test", gen_pressure, None, ()),
        ("qartod.spike_test", "qartod", "spike_test", gen_spike, None, ("ValueError",)),
        ("qartod.rate_of_change_test", "qartod", "rate_of_change_test", gen_roc, None, ("ValueError",)),
        ("qartod.density_inversion_test", "qartod", "density_inversion_test", gen_density, None, ("ValueError",)),
    ]
    only = set(sys.argv[1:])
    total_bad = 0
    for label, sub, name, gen, extra, own in plan:
        if only and label not in only and name not in only:
            continue
        f_old, f_new = getattr(ORIG[sub], name), getattr(NEW[sub], name)
        assert f_old is not f_new
        assert f_old.__code__.co_filename.startswith("/repo/"), f_old.__code__.co_filename
        assert f_new.__code__.co_filename.startswith(str(HERE)), f_new.__code__.co_filename
        for attr in ("standard_name", "stanard_name", "long_name"):
            assert getattr(f_old, attr, None) == getattr(f_new, attr, None)
        total_bad += compare(label, f_old, f_new, gen(), extra, own)

    print("%-36s %7s %7s %7s" % ("function", "cases", "raised", "differ"))
    for label, (n, n_exc, bad) in STATS.items():
        print("%-36s %7d %7d %7d" % (label, n, n_exc, bad))
        assert n >= 3000 or only, (label, n)
    for label, args, kwargs, old, new in FAILURES:
        print("-" * 80)
        print("MISMATCH in", label)
        print("  args  :", repr(args)[:600])
        print("  kwargs:", repr(kwargs)[:600])
        for side, o in (("orig", old), ("new ", new)):
            print("  %s: exc=%s(%s)" % (side, o.exc_type, (o.exc_msg or "")[:200]))
            print("        value=%s" % (repr(o.value)[:500],))
            print("        logs=%s warns=%s extra=%s" % (o.logs, o.warns, o.extra))
            if old.args_after != new.args_after:
                print("        args_after=%s" % (repr(o.args_after)[:500],))
    if total_bad:
        print("FAILED: %d differing cases" % total_bad)
        return 1
    print("OK: no differences")
    return 0


if __name__ == "__main__":
    sys.exit(main())
