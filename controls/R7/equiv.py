#!/usr/bin/env python
"""Differential check: refactored functions (this worktree) vs the originals in /repo.

Run as:  PYTHONPATH=<worktree> /venv/bin/python equiv.py

The original package is loaded under the top-level name ``orig_ioos_qc`` (its internal
``from ioos_qc...`` imports are redirected to ``orig_ioos_qc`` so that it is self contained).
Every refactored function is compared with its original on >= 3000 generated inputs:
results (values, masks, dtypes, container types), exception types (and messages), log records
and the state of the arguments / receivers after the call.
"""

import copy
import dataclasses
import datetime
import functools
import importlib
import importlib.abc
import importlib.machinery
import importlib.util
import io
import json
import logging
import os
import random
import re
import sys
import types
import warnings
from collections import OrderedDict
from pathlib import Path

import numpy as np
import pandas as pd
import xarray as xr
from shapely.geometry import GeometryCollection, Point, Polygon, mapping
from shapely.geometry.base import BaseGeometry

HERE = Path(__file__).resolve().parent
REPO_PKG = Path("/repo/ioos_qc")
ALIAS = "orig_ioos_qc"
N = int(os.environ.get("EQUIV_N", "3000"))

warnings.simplefilter("ignore")


# --------------------------------------------------------------------------------------
# loading the original package under another name
# --------------------------------------------------------------------------------------
class _RewritingLoader(importlib.machinery.SourceFileLoader):
    """Compiles the original sources with their absolute self-imports pointed at the alias."""

    def get_code(self, fullname):
        path = self.get_filename(fullname)
        source = Path(path).read_text()
        source = re.sub(r"\bfrom ioos_qc\b", f"from {ALIAS}", source)
        source = re.sub(r"^import ioos_qc\b", f"import {ALIAS}", source, flags=re.M)
        return compile(source, path, "exec", dont_inherit=True)


class _AliasFinder(importlib.abc.MetaPathFinder):
    def find_spec(self, fullname, path=None, target=None):
        if fullname != ALIAS and not fullname.startswith(ALIAS + "."):
            return None
        rel = fullname.split(".")[1:]
        base = REPO_PKG.joinpath(*rel)
        if base.is_dir() and (base / "__init__.py").exists():
            init = str(base / "__init__.py")
            return importlib.util.spec_from_file_location(
                fullname,
                init,
                loader=_RewritingLoader(fullname, init),
                submodule_search_locations=[str(base)],
            )
        pyfile = base.with_suffix(".py")
        if pyfile.exists():
            return importlib.util.spec_from_file_location(
                fullname,
                str(pyfile),
                loader=_RewritingLoader(fullname, str(pyfile)),
            )
        return None


sys.meta_path.insert(0, _AliasFinder())

import ioos_qc  # noqa: E402  (the refactored worktree, through PYTHONPATH)

assert Path(ioos_qc.__file__).resolve().parent == HERE / "ioos_qc", (
    f"ioos_qc was imported from {ioos_qc.__file__}, expected the worktree {HERE}"
)

orig_ioos_qc = importlib.import_module(ALIAS)
assert Path(orig_ioos_qc.__file__).resolve().parent == REPO_PKG


class Side:
    def __init__(self, top):
        self.top = top
        self.config = importlib.import_module(f"{top}.config")
        self.stores = importlib.import_module(f"{top}.stores")
        self.streams = importlib.import_module(f"{top}.streams")
        self.results = importlib.import_module(f"{top}.results")
        self.fx = importlib.import_module(f"{top}.config_creator.fx_parser")
        self.cc = importlib.import_module(f"{top}.config_creator.config_creator")
        self.qartod = importlib.import_module(f"{top}.qartod")


NEW = Side("ioos_qc")
OLD = Side(ALIAS)
for _name in ("config", "stores", "streams", "fx", "cc"):
    _new_file = Path(getattr(NEW, _name).__file__).resolve()
    _old_file = Path(getattr(OLD, _name).__file__).resolve()
    assert str(_new_file).startswith(str(HERE)), _new_file
    assert str(_old_file).startswith("/repo/"), _old_file
# the original really is self contained
assert OLD.stores.Config is OLD.config.Config
assert OLD.cc.fx_parser is OLD.fx and OLD.fx is not NEW.fx
assert OLD.config.CallResult is OLD.results.CallResult

# the test functions are looked up with import_module("ioos_qc.<package>") by both sides
import ioos_qc.argo  # noqa: E402
import ioos_qc.axds  # noqa: E402
import ioos_qc.qartod as shared_qartod  # noqa: E402

shared_qartod._equiv_none_attr = None  # an attribute that exists but is None
shared_qartod._equiv_not_callable = 12


# --------------------------------------------------------------------------------------
# log capture
# --------------------------------------------------------------------------------------
class _Capture(logging.Handler):
    def __init__(self):
        super().__init__(level=logging.DEBUG)
        self.records = []

    def emit(self, record):
        name = record.name.replace(ALIAS, "ioos_qc")
        self.records.append((name, record.levelname, record.getMessage(), record.args == ()))


# one capture for both logger trees: the test functions (ioos_qc.qartod, ...) are shared by
# both sides and always log below "ioos_qc"
CAPTURE = _Capture()
CAPTURES = {}
for _side in (NEW, OLD):
    _logger = logging.getLogger(_side.top)
    _logger.setLevel(logging.DEBUG)
    _logger.propagate = False
    _logger.addHandler(CAPTURE)
    CAPTURES[_side.top] = CAPTURE


# --------------------------------------------------------------------------------------
# deep comparison
# --------------------------------------------------------------------------------------
_ADDR = re.compile(r"0x[0-9a-fA-F]+")


def _norm_text(text):
    return _ADDR.sub("0x?", text.replace(ALIAS, "ioos_qc"))


def _ident(obj):
    module = getattr(obj, "__module__", None)
    if isinstance(module, str):
        module = module.replace(ALIAS, "ioos_qc")
    return (module, getattr(obj, "__qualname__", getattr(obj, "__name__", None)))


def _isnan(x):
    try:
        return bool(x != x)
    except Exception:  # noqa: BLE001
        return False


def _cmp_array(a, b, path):
    if type(a).__name__ != type(b).__name__:
        return f"{path}: array type {type(a).__name__} != {type(b).__name__}"
    if a.dtype != b.dtype:
        return f"{path}: dtype {a.dtype} != {b.dtype}"
    if a.shape != b.shape:
        return f"{path}: shape {a.shape} != {b.shape}"
    if a.flags.writeable != b.flags.writeable:
        return f"{path}: writeable {a.flags.writeable} != {b.flags.writeable}"
    if isinstance(a, np.ma.MaskedArray):
        ma, mb = np.ma.getmaskarray(a), np.ma.getmaskarray(b)
        if not np.array_equal(ma, mb):
            return f"{path}: masks differ {ma} != {mb}"
        if (a.mask is np.ma.nomask) != (b.mask is np.ma.nomask):
            return f"{path}: nomask-ness differs"
        if _cmp_scalar(a.fill_value, b.fill_value):
            return f"{path}: fill_value {a.fill_value!r} != {b.fill_value!r}"
        da, db = np.asarray(a.data)[~ma], np.asarray(b.data)[~mb]
    else:
        da, db = np.asarray(a), np.asarray(b)
    if da.dtype == object:
        for i, (x, y) in enumerate(zip(da.ravel().tolist(), db.ravel().tolist())):
            d = same(x, y, f"{path}[{i}]")
            if d:
                return d
        return None
    if da.dtype.kind in "fcmM":
        ok = np.array_equal(da, db, equal_nan=True)
    else:
        ok = np.array_equal(da, db)
    if not ok:
        return f"{path}: values differ {da!r} != {db!r}"
    if da.dtype.kind == "f" and not np.array_equal(np.signbit(da), np.signbit(db)):
        return f"{path}: signs of zeros/nans differ"
    return None


def _cmp_scalar(a, b):
    if type(a).__name__ != type(b).__name__:
        return True
    if _isnan(a) and _isnan(b):
        return False
    try:
        return not bool(a == b)
    except Exception:  # noqa: BLE001
        return repr(a) != repr(b)


def same(a, b, path="$"):  # noqa: C901, PLR0911, PLR0912
    """None when a and b are indistinguishable, else a description of the first difference."""
    if a is b:
        return None
    if isinstance(a, Outcome) and isinstance(b, Outcome):
        return same(a.__dict__, b.__dict__, path)
    if isinstance(a, BaseException) or isinstance(b, BaseException):
        if type(a).__name__ != type(b).__name__:
            return f"{path}: exception {a!r} != {b!r}"
        if _norm_text(str(a)) != _norm_text(str(b)):
            return f"{path}: exception message {str(a)!r} != {str(b)!r}"
        return None
    if isinstance(a, np.ndarray) or isinstance(b, np.ndarray):
        if not (isinstance(a, np.ndarray) and isinstance(b, np.ndarray)):
            return f"{path}: {type(a)} != {type(b)}"
        return _cmp_array(a, b, path)
    if isinstance(a, (pd.Series, pd.Index)) or isinstance(b, (pd.Series, pd.Index)):
        if type(a) is not type(b):
            return f"{path}: {type(a)} != {type(b)}"
        if a.dtype != b.dtype:
            return f"{path}: dtype {a.dtype} != {b.dtype}"
        if getattr(a, "name", None) != getattr(b, "name", None) and not (
            _isnan(getattr(a, "name", None)) and _isnan(getattr(b, "name", None))
        ):
            return f"{path}: name {a.name!r} != {b.name!r}"
        if len(a) != len(b) or not a.equals(b):
            return f"{path}: pandas values differ\n{a}\n{b}"
        if isinstance(a, pd.Series):
            return same(a.index, b.index, path + ".index")
        return None
    if isinstance(a, pd.DataFrame) or isinstance(b, pd.DataFrame):
        if type(a) is not type(b):
            return f"{path}: {type(a)} != {type(b)}"
        if list(a.columns) != list(b.columns):
            return f"{path}: columns {list(a.columns)} != {list(b.columns)}"
        if list(a.dtypes) != list(b.dtypes):
            return f"{path}: dtypes {list(a.dtypes)} != {list(b.dtypes)}"
        d = same(a.index, b.index, path + ".index")
        if d:
            return d
        if not a.equals(b):
            return f"{path}: frames differ\n{a}\n{b}"
        return None
    if isinstance(a, (xr.DataArray, xr.Dataset)):
        return None if a.identical(b) else f"{path}: xarray objects differ"
    if isinstance(a, BaseGeometry) or isinstance(b, BaseGeometry):
        if type(a) is not type(b) or a.wkb != b.wkb:
            return f"{path}: geometries differ {a} != {b}"
        return None
    if isinstance(a, functools.partial) or isinstance(b, functools.partial):
        if not (isinstance(a, functools.partial) and isinstance(b, functools.partial)):
            return f"{path}: {type(a)} != {type(b)}"
        return (
            same(a.func, b.func, path + ".func")
            or same(a.args, b.args, path + ".args")
            or same(a.keywords, b.keywords, path + ".keywords")
        )
    if isinstance(a, (types.FunctionType, types.BuiltinFunctionType, type)) or isinstance(
        b,
        (types.FunctionType, types.BuiltinFunctionType, type),
    ):
        if _ident(a) != _ident(b):
            return f"{path}: callables {_ident(a)} != {_ident(b)}"
        return None
    if isinstance(a, dict) or isinstance(b, dict):
        if not (isinstance(a, dict) and isinstance(b, dict)):
            return f"{path}: {type(a)} != {type(b)}"
        if type(a).__name__ != type(b).__name__:
            return f"{path}: dict types {type(a).__name__} != {type(b).__name__}"
        ka, kb = list(a.keys()), list(b.keys())
        d = same(ka, kb, path + ".keys()")
        if d:
            return d
        for k, x, y in zip(ka, a.values(), b.values()):
            d = same(x, y, f"{path}[{k!r}]")
            if d:
                return d
        return None
    if isinstance(a, (list, tuple)) or isinstance(b, (list, tuple)):
        if type(a).__name__ != type(b).__name__:
            return f"{path}: {type(a).__name__} != {type(b).__name__}"
        if _ident(type(a)) != _ident(type(b)):
            return f"{path}: sequence classes {_ident(type(a))} != {_ident(type(b))}"
        if len(a) != len(b):
            return f"{path}: len {len(a)} != {len(b)}: {a!r} != {b!r}"
        fields = getattr(a, "_fields", None)
        if fields != getattr(b, "_fields", None):
            return f"{path}: namedtuple fields differ"
        for i, (x, y) in enumerate(zip(a, b)):
            d = same(x, y, f"{path}.{fields[i]}" if fields else f"{path}[{i}]")
            if d:
                return d
        return None
    if dataclasses.is_dataclass(a) and dataclasses.is_dataclass(b) and not isinstance(a, type):
        if _ident(type(a)) != _ident(type(b)):
            return f"{path}: {_ident(type(a))} != {_ident(type(b))}"
        for f in dataclasses.fields(a):
            d = same(getattr(a, f.name), getattr(b, f.name), f"{path}.{f.name}")
            if d:
                return d
        return None
    if isinstance(a, (set, frozenset)):
        return None if type(a) is type(b) and a == b else f"{path}: sets differ"
    if isinstance(a, types.SimpleNamespace) and isinstance(b, types.SimpleNamespace):
        return same(a.__dict__, b.__dict__, path)
    if isinstance(a, Opaque) and isinstance(b, Opaque):
        return None if a.tag == b.tag else f"{path}: opaque {a.tag} != {b.tag}"
    if _cmp_scalar(a, b):
        if type(a).__name__ == type(b).__name__ and _ident(type(a)) == _ident(type(b)):
            if hasattr(a, "__dict__") and not isinstance(a, (int, float, str)):
                return same(vars(a), vars(b), path + ".__dict__")
        return f"{path}: {a!r} ({type(a).__name__}) != {b!r} ({type(b).__name__})"
    return None


class Opaque:
    """A value that is only compared by its tag."""

    def __init__(self, tag):
        self.tag = tag

    def __repr__(self):
        return f"<Opaque {self.tag}>"


class Outcome:
    """What one call did: value or exception, logs, extras (state after the call)."""

    def __init__(self, value=None, error=None, logs=None, extras=None):
        self.value = value
        self.error = error
        self.logs = logs
        self.extras = extras

    def __repr__(self):
        return f"Outcome(value={self.value!r}, error={self.error!r}, logs={self.logs!r}, extras={self.extras!r})"


def observe(side, thunk, extras=None):
    cap = CAPTURES[side.top]
    cap.records = []
    out = Outcome()
    try:
        with warnings.catch_warnings():
            warnings.simplefilter("ignore")
            out.value = thunk()
    except Exception as e:  # noqa: BLE001
        out.error = e
    out.logs = list(cap.records)
    if extras is not None:
        try:
            out.extras = extras()
        except Exception as e:  # noqa: BLE001
            out.extras = e
    return out


FAILURES = []
COUNTS = OrderedDict()
KINDS = {}


def tally(label, out):
    """Keep track of what the original did, to show that the inputs reach the interesting paths."""
    kinds = KINDS.setdefault(label, {})
    key = "returned" if out.error is None else type(out.error).__name__
    kinds[key] = kinds.get(key, 0) + 1
    if out.logs:
        kinds["(logged)"] = kinds.get("(logged)", 0) + 1
    for tag in FEATURES.get(label, lambda o: ())(out):
        kinds[tag] = kinds.get(tag, 0) + 1


def _stream_features(out):
    if out.error is not None:
        return
    res = out.value["results"] if isinstance(out.value, dict) else out.value
    if res:
        yield "(yielded)"
    if any(r.results for r in res):
        yield "(test ran)"
    if any(not np.all(r.subset_indexes) and np.any(r.subset_indexes) for r in res):
        yield "(partial window)"
    if any(not np.any(r.subset_indexes) for r in res if np.size(r.subset_indexes)):
        yield "(empty window)"


def _subset_features(out):
    if out.error is not None:
        return
    value = out.value
    if isinstance(value, dict):  # _get_stats
        value = value["mean"][1]
    if isinstance(value, np.ndarray):
        yield "(array)" if not np.all(np.isnan(value)) else "(all-nan array)"
    else:
        yield "(nan)" if np.isnan(value) else "(number)"
    used = [m for _, _, m, _ in out.logs if m.startswith("Used bounding box")]
    first = [m for _, _, m, _ in out.logs if m.startswith("Subsetting")]
    if used and first and not first[0].endswith(used[0].split(": ", 1)[1] + "..."):
        yield "(padded)"
    if any(m.startswith("No data found") for _, _, m, _ in out.logs):
        yield "(gave up)"


FEATURES = {
    "PandasStream.run": _stream_features,
    "NumpyStream.run": _stream_features,
    "QcConfigCreator._get_subset": _subset_features,
    "QcConfigCreator._get_stats": _subset_features,
    "PandasStore.save": lambda o: ["(columns)"] if o.error is None and len(o.value.columns) else [],
    "Call.run": lambda o: ["(result)"] if o.error is None and o.value else [],
    "ContextConfig.__init__": lambda o: (["(calls)"] if o.error is None and o.value["calls"]["calls"] else [])
    + (["(region)"] if o.error is None and o.value["region"] is not None else []),
    "Config.__init__": lambda o: ["(calls)"] if o.error is None and o.value["calls"]["calls"] else [],
    "Config.has": lambda o: ["(found)"] if o.error is None and o.value is not False else [],
    "Config.contexts": lambda o: ["(several groups)"] if o.error is None and len(o.value) > 1 else [],
}


def check(label, case, make):
    """make(side) -> (thunk, extras or None); runs on both sides and compares."""
    COUNTS[label] = COUNTS.get(label, 0) + 1
    outs = []
    for side in (NEW, OLD):
        thunk, extras = make(side)
        outs.append(observe(side, thunk, extras))
    tally(label, outs[1])
    d = same(outs[0], outs[1])
    if d:
        FAILURES.append((label, case, d))
        if len([f for f in FAILURES if f[0] == label]) <= 3:
            print(f"MISMATCH in {label}: {d}\n   case: {case!r}"[:3000])
    return outs


# --------------------------------------------------------------------------------------
# generators
# --------------------------------------------------------------------------------------
R = random.Random(20240607)
NP = np.random.default_rng(20240607)


def rnd_floats(n, nan_ok=True, lo=-5, hi=40):
    vals = [round(R.uniform(lo, hi), R.choice([0, 1, 3])) for _ in range(n)]
    if nan_ok:
        vals = [np.nan if R.random() < 0.15 else v for v in vals]
    return vals


def rnd_array(n):
    """A numpy array of length n: floats with NaN, ints, masked, object with None."""
    kind = R.choice(["float", "float", "float32", "int", "masked", "object", "maskedint"])
    if kind == "float":
        return np.array(rnd_floats(n), dtype="float64")
    if kind == "float32":
        return np.array(rnd_floats(n), dtype="float32")
    if kind == "int":
        return np.array([R.randint(-5, 40) for _ in range(n)], dtype=R.choice(["int64", "int32", "uint8"]))
    if kind == "masked":
        arr = np.ma.array(rnd_floats(n), dtype="float64")
        if n and R.random() < 0.8:
            arr.mask = [R.random() < 0.3 for _ in range(n)]
        return arr
    if kind == "maskedint":
        return np.ma.array([R.randint(-5, 40) for _ in range(n)], mask=[R.random() < 0.3 for _ in range(n)], dtype="int64")
    vals = [None if R.random() < 0.2 else v for v in rnd_floats(n)]
    return np.array(vals, dtype=object)


T0 = pd.Timestamp("2020-01-01T00:00:00")


def rnd_times(n, kind=None):
    kind = kind or R.choice(["regular", "regular", "irregular", "dups", "unsorted"])
    if kind == "regular":
        step = R.choice([1, 60, 3600, 86400])
        secs = [i * step for i in range(n)]
    elif kind == "irregular":
        secs, t = [], 0
        for _ in range(n):
            t += R.choice([1, 30, 600, 7200, 100000])
            secs.append(t)
    elif kind == "dups":
        secs = sorted(R.choice([0, 3600, 7200, 10800]) for _ in range(n))
    else:
        secs = [R.randint(0, 400000) for _ in range(n)]
    return [T0 + pd.Timedelta(seconds=s) for s in secs]


def rnd_window_bound(times):
    if R.random() < 0.35 or not len(times):
        choice = R.choice([None, None, T0, T0 + pd.Timedelta(hours=1), T0 + pd.Timedelta(days=400), T0 - pd.Timedelta(days=1)])
    else:
        choice = R.choice(list(times))
        if R.random() < 0.3:
            choice = choice + pd.Timedelta(seconds=R.choice([-1, 1, 1800]))
    if choice is None:
        return None
    form = R.choice(["ts", "ts", "datetime", "np", "str"])
    if form == "ts":
        return pd.Timestamp(choice)
    if form == "datetime":
        return pd.Timestamp(choice).to_pydatetime()
    if form == "np":
        return np.datetime64(pd.Timestamp(choice))
    return pd.Timestamp(choice).isoformat()


def rnd_region(kind=None):
    kind = kind or R.choice(["none", "none", "features", "geometry", "collection", "empty", "garbage", "emptyfeatures"])
    poly = Polygon([(-80, 30), (-60, 30), (-60, 50), (-80, 50)])
    if kind == "none":
        return None
    if kind == "features":
        feats = [
            {"type": "Feature", "properties": {}, "geometry": mapping(g)}
            for g in R.sample([poly, Point(1, 2), Point(-70, 40).buffer(1.0, 2)], R.randint(1, 3))
        ]
        return {"type": "FeatureCollection", "features": feats}
    if kind == "emptyfeatures":
        return {"type": "FeatureCollection", "features": []}
    if kind == "geometry":
        return {"type": "Feature", "geometry": mapping(R.choice([poly, Point(3, 4)]))}
    if kind == "collection":
        return GeometryCollection(R.choice([[poly], [Point(0, 0), poly], []]))
    if kind == "empty":
        return R.choice([{}, "", 0, []])
    return R.choice([{"foo": 1}, "abc", ["features"], {"type": "Polygon"}])


def jsonable(value):
    if isinstance(value, (pd.Timestamp, datetime.datetime)):
        return pd.Timestamp(value).isoformat()
    if isinstance(value, np.datetime64):
        return str(value)
    return value


# test sections usable for a data stream of floats --------------------------------------
def rnd_test_section(with_time=True, with_z=True, with_loc=True):  # noqa: C901
    """{package: {test: kwargs}} with a mix of good, odd-order and broken configurations."""
    section = OrderedDict()
    qartod = OrderedDict()
    choices = ["gross", "gross", "spike", "bad_args", "missing_method", "none_kwargs"]
    if with_time:
        choices += ["flat", "roc", "atten"]
    if with_z:
        choices += ["density"]
    if with_loc:
        choices += ["location"]
    for pick in R.sample(choices, R.randint(1, min(4, len(choices)))):
        if pick == "gross":
            lo, hi = sorted([R.uniform(-5, 10), R.uniform(15, 40)])
            kw = {"fail_span": [lo, hi]}
            if R.random() < 0.7:
                kw["suspect_span"] = R.choice([[lo + 2, hi - 2], None, (lo + 1, hi - 1)])
            if R.random() < 0.5:  # odd parameter order
                kw = dict(reversed(list(kw.items())))
            if R.random() < 0.1:
                kw["fail_span"] = [hi, lo]  # raises inside the test
            qartod["gross_range_test"] = kw
        elif pick == "spike":
            kw = {}
            if R.random() < 0.8:
                kw["suspect_threshold"] = R.choice([None, 1, 2.5])
            if R.random() < 0.8:
                kw["fail_threshold"] = R.choice([None, 5, 7.5])
            if R.random() < 0.3:
                kw["method"] = R.choice(["average", "differential", "bogus"])
            qartod["spike_test"] = kw
        elif pick == "flat":
            qartod["flat_line_test"] = {
                "tolerance": R.choice([0, 0.5, 2]),
                "fail_threshold": R.choice([7200, 100000]),
                "suspect_threshold": R.choice([3600, 60]),
            }
        elif pick == "roc":
            qartod["rate_of_change_test"] = {"threshold": R.choice([0.001, 1, 5])}
        elif pick == "atten":
            qartod["attenuated_signal_test"] = {
                "suspect_threshold": R.choice([5, 1]),
                "fail_threshold": R.choice([0.5, 2]),
                "check_type": R.choice(["std", "range"]),
            }
        elif pick == "density":
            qartod["density_inversion_test"] = {"suspect_threshold": R.choice([None, 3]), "fail_threshold": R.choice([None, 5])}
        elif pick == "location":
            qartod["location_test"] = R.choice([{}, {"bbox": [-100, -10, 100, 60]}, {"bbox": [-100, -10, 100, 60], "range_max": 5000}])
        elif pick == "bad_args":
            qartod["gross_range_test" if "gross_range_test" not in qartod else "rate_of_change_test"] = {"unknown": 1}
        elif pick == "missing_method":
            qartod[R.choice(["nope_test", "_equiv_missing"])] = {"a": 1}
        elif pick == "none_kwargs":
            qartod["spike_test" if "spike_test" not in qartod else "pressure"] = None
    section["qartod"] = qartod
    if R.random() < 0.25:
        section["axds"] = {"valid_range_test": {"valid_span": [R.uniform(-5, 5), R.uniform(10, 40)], "end_inclusive": R.choice([True, False])}}
    if R.random() < 0.15:
        section["argo"] = {"pressure_increasing_test": R.choice([None, {}])}
    if R.random() < 0.15:
        section[R.choice(["nopackage", "qartodd", "config_creator.nothing"])] = {"gross_range_test": {"fail_span": [0, 1]}}
    if R.random() < 0.5:
        section = OrderedDict(R.sample(list(section.items()), len(section)))
    return section


def rnd_context_spec(stream_ids, times, allow_broken=False):
    ctx = OrderedDict()
    if R.random() < 0.6:
        win = {}
        if R.random() < 0.8:
            win["starting"] = rnd_window_bound(times)
        if R.random() < 0.8:
            win["ending"] = rnd_window_bound(times)
        ctx["window"] = win
    if R.random() < 0.4:
        ctx["region"] = rnd_region()
    if R.random() < 0.3:
        ctx["attrs"] = {"title": R.choice(["a", "b"])}
    streams = OrderedDict()
    for sid in R.sample(stream_ids, R.randint(1, len(stream_ids))):
        streams[sid] = rnd_test_section()
    ctx["streams"] = streams
    if allow_broken and R.random() < 0.08:
        broken = R.choice(["nostreams", "badwindow", "nonewindow", "intregion", "badkey", "noneattr", "notcallable"])
        if broken == "nostreams":
            del ctx["streams"]
        elif broken == "badwindow":
            ctx["window"] = {"start": 1}
        elif broken == "nonewindow":
            ctx["window"] = None
        elif broken == "intregion":
            ctx["region"] = 5
        elif broken == "badkey":
            streams[stream_ids[0]] = {"qartod": {"spike_test": {1: 2}}}
        elif broken == "noneattr":
            streams[stream_ids[0]] = {"qartod": {"_equiv_none_attr": {"a": 1}}}
        else:
            streams[stream_ids[0]] = {"qartod": {"_equiv_not_callable": {"a": 1}}}
    return ctx


def describe_call(side, call):
    """Everything observable about a Call (without relying on the refactored properties)."""
    return OrderedDict(
        cls=Opaque(_ident(type(call))),
        stream_id=call.stream_id,
        func=call.call.func,
        args=call.call.args,
        keywords=call.call.keywords,
        context=call.context,
        context_attrs=call.context.attrs,
        attrs=call.attrs,
    )


def describe_calls(side, calls):
    out = [describe_call(side, c) for c in calls]
    # aliasing pattern of the attrs dicts and contexts
    alias = [[calls[i].attrs is calls[j].attrs for j in range(len(calls))] for i in range(len(calls))]
    ctx_alias = [[calls[i].context is calls[j].context for j in range(len(calls))] for i in range(len(calls))]
    return OrderedDict(calls=out, attrs_alias=alias, ctx_alias=ctx_alias)


# --------------------------------------------------------------------------------------
# 1. Call properties
# --------------------------------------------------------------------------------------
def _plain(a, b=2):
    return a


def _agg_true(inp):
    return inp


_agg_true.aggregate = True


def _agg_one(inp):
    return inp


_agg_one.aggregate = 1


def _agg_false(inp):
    return inp


_agg_false.aggregate = False


def _weird_module(inp):
    return inp


_weird_module.__module__ = "ioos_qc.ioos_qc.deep.ioos_qc.x"


def _weird_module2(inp):
    return inp


_weird_module2.__module__ = "xioos_qc.qartodioos_qc."


def _none_module(inp):
    return inp


_none_module.__module__ = None


class _CallableNoName:
    def __call__(self, inp):
        return inp


_NONAME = _CallableNoName()

FUNC_POOL = [
    shared_qartod.gross_range_test,
    shared_qartod.spike_test,
    shared_qartod.aggregate,
    shared_qartod.location_test,
    ioos_qc.axds.valid_range_test,
    ioos_qc.argo.pressure_increasing_test,
    _plain,
    _agg_true,
    _agg_one,
    _agg_false,
    _weird_module,
    _weird_module2,
    _none_module,
    _NONAME,
    len,
    type,
]


def rnd_context(side):
    cfg = side.config
    win = cfg.tw(*R.choice([(None, None), (T0, None), (None, T0), (T0, T0 + pd.Timedelta(days=1)), ("2020", "2021")]))
    region = rnd_region(R.choice(["none", "collection"]))
    attrs = R.choice([{}, {"a": 1}])
    style = R.random()
    if style < 0.2:
        return cfg.Context()
    return cfg.Context(window=win, region=region, attrs=attrs)


def config_of(side, calls):
    """A Config that holds exactly the given calls (Config([]) is not a valid source)."""
    cfg = side.config.Config.__new__(side.config.Config)
    cfg._calls = calls
    return cfg


def make_call(side, spec):
    """spec: (stream_id, func, args, kwargs, ctxseed, attrs)"""
    stream_id, func, args, kwargs, ctxseed, attrs = spec
    state = R.getstate()
    R.seed(ctxseed)
    ctx = rnd_context(side)
    R.setstate(state)
    return side.config.Call(
        stream_id=stream_id,
        call=functools.partial(func, *args, **kwargs),
        context=ctx,
        attrs=attrs,
    )


def rnd_call_spec():
    return (
        R.choice(["v1", "v2", "", None, 5, "temp"]),
        R.choice(FUNC_POOL),
        R.choice([(), ((),), (1, 2), ("a",)]),
        R.choice([{}, {"a": 1}, {"fail_span": [0, 1], "suspect_span": None}, {"b": 2, "a": 1}]),
        R.randint(0, 5),
        R.choice([{}, {"k": "v"}]),
    )


PROPS = ["window", "region", "func", "module", "method", "method_path", "args", "kwargs", "is_aggregate"]


def test_call_properties():
    for i in range(N):
        spec = rnd_call_spec()
        other = R.choice([spec, rnd_call_spec(), (spec[0], spec[1], spec[2], dict(reversed(list(spec[3].items()))), spec[4], spec[5])])
        for prop in PROPS:
            check(f"Call.{prop}", spec, lambda side, p=prop: ((lambda c=make_call(side, spec): getattr(c, p)), None))
        check("Call.config", spec, lambda side: ((lambda c=make_call(side, spec): c.config()), None))
        check("Call.__key__", spec, lambda side: ((lambda c=make_call(side, spec): c.__key__()), None))
        check("Call.__hash__", spec, lambda side: ((lambda c=make_call(side, spec): hash(c)), None))

        def eq_thunk(side):
            a, b = make_call(side, spec), make_call(side, other)
            foreign = None
            return (lambda: (a == b, a != b, a.__eq__(b), a.__eq__(foreign) is NotImplemented, a.__eq__("s") is NotImplemented, a == 3, len({a, b}))), None

        check("Call.__eq__", (spec, other), eq_thunk)
        # identity of what the properties hand out
        def ident_thunk(side):
            c = make_call(side, spec)
            return (lambda: (c.func is c.call.func, c.args is c.call.args, c.kwargs is c.call.keywords, c.window is c.context.window, c.region is c.context.region, c.config()[c.module][c.method] is c.call.keywords)), None

        check("Call.identity", spec, ident_thunk)


# --------------------------------------------------------------------------------------
# 2. Call.run
# --------------------------------------------------------------------------------------
def _f_basic(inp, a=1, b=2):
    return ("basic", inp, a, b)


def _f_kwonly(inp, *, a=1):
    return ("kwonly", inp, a)


def _f_posonly(inp, /, a=3):
    return ("posonly", inp, a)


def _f_varargs(inp, *args, a=1, **kwargs):
    return ("varargs", inp, args, a, kwargs)


def _f_raises(inp, a=1):
    msg = f"boom {a}"
    raise ValueError(msg)


def _f_raises_key(inp):
    raise KeyError("k")


def _f_mutates(inp, a=None):
    if isinstance(inp, list):
        inp.append(99)
    if isinstance(a, dict):
        a["touched"] = True
    return ("mutates", inp, a)


def _f_noargs():
    return "noargs"


def _f_order(tinp, inp, zinp=None, lat=None, lon=None):
    return ("order", inp, tinp, zinp, lat, lon)


def _f_baseexc(inp):
    raise SystemError("sys")


RUN_FUNCS = [
    _f_basic,
    _f_kwonly,
    _f_posonly,
    _f_varargs,
    _f_raises,
    _f_raises_key,
    _f_mutates,
    _f_noargs,
    _f_order,
    _f_baseexc,
    shared_qartod.gross_range_test,
    shared_qartod.spike_test,
    shared_qartod.flat_line_test,
    shared_qartod.location_test,
    ioos_qc.axds.valid_range_test,
    type,
    len,
    _NONAME,
    _weird_module,
]


def test_call_run():
    for i in range(N):
        func = R.choice(RUN_FUNCS)
        n = R.randint(0, 8)
        configured = R.choice(
            [
                {},
                {"a": 5},
                {"a": {"nested": 1}, "b": [1, 2]},
                {"fail_span": [0, 20], "suspect_span": R.choice([None, [5, 15]])},
                {"suspect_span": [5, 15], "fail_span": (0, 20)},
                {"suspect_threshold": R.choice([None, 1, 3600]), "fail_threshold": R.choice([None, 3, 7200]), "tolerance": 1},
                {"valid_span": [0, 10]},
                {"inp": [1, 2, 3]},
                {"bbox": [-10, -10, 10, 10]},
                {"fail_span": [20, 0]},
                {"zzz": 1},
            ],
        )
        passed = {}
        if R.random() < 0.9:
            passed["inp"] = R.choice([rnd_array(n), rnd_floats(n), pd.Series(rnd_floats(n), dtype="float64")])
        if R.random() < 0.5:
            passed["tinp"] = R.choice([np.array(rnd_times(n), dtype="datetime64[ns]"), pd.Series(rnd_times(n), dtype="datetime64[ns]")])
        if R.random() < 0.3:
            passed["zinp"] = np.array(rnd_floats(n))
        if R.random() < 0.3:
            passed["lat"] = np.array(rnd_floats(n, lo=-95, hi=95))
            passed["lon"] = np.array(rnd_floats(n, lo=-185, hi=185))
        if R.random() < 0.3:
            passed["a"] = R.choice([7, {"x": 1}, None])
        if R.random() < 0.2:
            passed["b"] = 8
        if R.random() < 0.1:
            passed["junk"] = object
        if R.random() < 0.5:
            passed = dict(R.sample(list(passed.items()), len(passed)))
        case = (func, configured, passed)

        def make(side):
            cfgd = copy.deepcopy(configured)
            psd = copy.deepcopy(passed)
            call = side.config.Call(stream_id="s", call=functools.partial(func, (), **cfgd))

            def extras():
                return OrderedDict(configured=cfgd, passed=psd, keywords=call.call.keywords)

            return (lambda: call.run(**psd)), extras

        outs = check("Call.run", case, make)
        # what the returned list holds must be the right class on each side
        for side, out in zip((NEW, OLD), outs):
            if out.error is None:
                assert isinstance(out.value, list)
                assert all(type(r) is side.results.CallResult for r in out.value)


# --------------------------------------------------------------------------------------
# 3. ContextConfig.__init__
# --------------------------------------------------------------------------------------
class AttrDict(OrderedDict):
    """A stream config that carries an ``attrs`` attribute."""

    def __init__(self, *args, **kwargs):
        super().__init__(*args, **kwargs)
        self.attrs = {"units": "m"}


def as_source(spec, form, side):
    """Deliver a config spec in one of the accepted source forms."""
    if form == "dict":
        return copy.deepcopy(dict(spec))
    if form == "odict":
        return copy.deepcopy(OrderedDict(spec))
    text = json.dumps(spec, default=jsonable)
    if form == "json":
        return text
    if form == "stringio":
        return io.StringIO(text)
    raise AssertionError(form)


def is_jsonable(spec):
    try:
        json.dumps(spec, default=jsonable)
    except Exception:  # noqa: BLE001
        return False
    return not any(isinstance(v, GeometryCollection) for v in _walk(spec))


def _walk(obj):
    yield obj
    if isinstance(obj, dict):
        for v in obj.values():
            yield from _walk(v)
    elif isinstance(obj, (list, tuple)):
        for v in obj:
            yield from _walk(v)


def describe_context_config(side, cc):
    return OrderedDict(
        config=cc.config,
        attrs=cc.attrs,
        attrs_is_config=("attrs" in cc.config and cc.attrs is cc.config["attrs"]),
        region=cc.region,
        region_is_config=("region" in cc.config and cc.region is cc.config["region"]),
        window=cc.window,
        window_is_config=("window" in cc.config and cc.window is cc.config["window"]),
        context=cc.context,
        context_attrs_alias=cc.context.attrs is cc.attrs,
        calls=describe_calls(side, cc._calls),
        calls_prop=cc.calls is cc._calls,
        text=str(cc),
        all_ctx=all(c.context is cc.context for c in cc._calls),
    )


def test_context_config():
    for i in range(N):
        times = rnd_times(R.randint(0, 8))
        spec = rnd_context_spec(["v1", "v2", "v3"], times, allow_broken=True)
        if R.random() < 0.15 and "streams" in spec:
            sid = next(iter(spec["streams"]))
            spec["streams"][sid] = AttrDict(spec["streams"][sid])
        if R.random() < 0.1 and "window" in spec and isinstance(spec["window"], dict):
            spec["window_tw"] = True
        form = R.choice(["dict", "odict", "json", "stringio"]) if is_jsonable(spec) and "window_tw" not in spec else R.choice(["dict", "odict"])
        if R.random() < 0.02:
            spec, form = R.choice([5, None, "[1, 2", "justastring"]), "raw"

        def make(side):
            if form == "raw":
                source = spec
            else:
                source = as_source(spec, form, side)
                if isinstance(source, dict) and source.pop("window_tw", None):
                    try:
                        source["window"] = side.config.tw(**source["window"])
                    except TypeError:
                        pass
            holder = {}

            def thunk():
                holder["cc"] = side.config.ContextConfig(source)
                return describe_context_config(side, holder["cc"])

            def extras():
                return OrderedDict(
                    source=source.getvalue() if isinstance(source, io.StringIO) else source,
                    config_is_source=("cc" in holder and holder["cc"].config is source),
                )

            return thunk, extras

        check("ContextConfig.__init__", (form, spec), make)


# --------------------------------------------------------------------------------------
# 4. Config.__init__
# --------------------------------------------------------------------------------------
def rnd_qc_section():
    """A QcConfig style section {package: {test: kwargs}} (depth 3) ."""
    section = rnd_test_section()
    return section


def describe_config(side, cfg):
    return OrderedDict(
        has_config=hasattr(cfg, "config"),
        config=getattr(cfg, "config", None),
        calls=describe_calls(side, cfg._calls),
        attrs=sorted(vars(cfg)),
    )


def test_config_init():  # noqa: C901
    for i in range(N):
        times = rnd_times(R.randint(0, 8))
        kind = R.choice(["contexts", "contexts", "streams", "config", "qc", "qc", "call", "calls", "cfgobj", "ccobj", "cclist", "withcalls", "bad", "empty", "mixedlist"])
        key = R.choice([None, "_stream", "mykey", 5])
        specs = [rnd_context_spec(["v1", "v2"], times, allow_broken=R.random() < 0.3) for _ in range(R.randint(0, 3))]
        one = rnd_context_spec(["v1", "v2"], times, allow_broken=R.random() < 0.2)
        call_specs = [rnd_call_spec() for _ in range(R.randint(0, 4))]
        qc = rnd_qc_section()
        depth_hack = R.random() < 0.2
        form = R.choice(["dict", "odict", "json", "stringio"])

        def make(side):
            kwargs = {} if key is None else {"default_stream_key": key}
            aliased = {}
            if kind == "contexts":
                spec = OrderedDict(contexts=specs)
                source = as_source(spec, form if is_jsonable(spec) else "dict", side)
            elif kind == "streams":
                source = as_source(one, form if is_jsonable(one) else "odict", side)
            elif kind == "config":
                spec = one.get("streams", OrderedDict(v1=qc))
                source = as_source(spec, form if is_jsonable(spec) else "dict", side)
            elif kind == "qc":
                spec = copy.deepcopy(qc)
                if depth_hack:  # a nested kwarg makes a QcConfig look like a Config
                    first = next(iter(spec.values()))
                    if first:
                        k0 = next(iter(first))
                        first[k0] = {"fail_span": {"deep": {"deeper": 1}}}
                source = as_source(spec, form if is_jsonable(spec) else "dict", side)
            elif kind == "call":
                source = make_call(side, call_specs[0]) if call_specs else []
            elif kind == "calls":
                source = [make_call(side, s) for s in call_specs]
                if i % 3 == 0:
                    source = tuple(source)
            elif kind == "mixedlist":
                inner = config_of(side, [make_call(side, s) for s in call_specs])
                source = [make_call(side, s) for s in call_specs[:2]] + [inner, 5, "x"]
            elif kind == "cfgobj":
                source = config_of(side, [make_call(side, s) for s in call_specs])
                aliased["list"] = source._calls
            elif kind == "ccobj":
                try:
                    source = side.config.ContextConfig(copy.deepcopy(one))
                    aliased["list"] = source._calls
                except Exception:  # noqa: BLE001
                    source = {}
            elif kind == "cclist":
                source = []
                for s in specs:
                    try:
                        source.append(side.config.ContextConfig(copy.deepcopy(s)))
                    except Exception:  # noqa: BLE001, PERF203
                        pass
            elif kind == "withcalls":
                source = types.SimpleNamespace(calls=[make_call(side, s) for s in call_specs])
                aliased["list"] = source.calls
            elif kind == "empty":
                source = [{}, OrderedDict(), [], "{}"][i % 4]
            else:
                source = [5, None, 1.5, "not a config: ["][i % 4]
            holder = {}

            def thunk():
                holder["cfg"] = side.config.Config(source, **kwargs)
                return describe_config(side, holder["cfg"])

            def extras():
                cfg = holder.get("cfg")
                return OrderedDict(
                    alias=(cfg is not None and "list" in aliased and cfg._calls is aliased["list"]),
                    source=source.getvalue() if isinstance(source, io.StringIO) else (source if isinstance(source, (dict, str, int, float, type(None))) else None),
                    config_is_source=(cfg is not None and getattr(cfg, "config", None) is source),
                )

            return thunk, extras

        # both sides must draw the same random numbers inside make()
        state = R.getstate()
        outs = []
        COUNTS["Config.__init__"] = COUNTS.get("Config.__init__", 0) + 1
        for side in (NEW, OLD):
            R.setstate(state)
            thunk, extras = make(side)
            outs.append(observe(side, thunk, extras))
        tally("Config.__init__", outs[1])
        d = same(outs[0], outs[1])
        if d:
            FAILURES.append(("Config.__init__", (kind, key), d))
            print(f"MISMATCH in Config.__init__: {d}\n   case: {(kind, key, form)!r}"[:3000])

        # positional / version argument spellings
        if i % 10 == 0:
            def make2(side):
                src = copy.deepcopy(qc)
                return (lambda: describe_config(side, side.config.Config(src, None, "k2"))), None

            check("Config.__init__", ("positional", qc), make2)


# --------------------------------------------------------------------------------------
# 5. Config helpers
# --------------------------------------------------------------------------------------
def test_config_helpers():
    for i in range(N):
        call_specs = [rnd_call_spec() for _ in range(R.randint(0, 7))]
        # repeat some to get equal calls / shared contexts
        call_specs += [R.choice(call_specs) for _ in range(R.randint(0, 3)) if call_specs]
        extra_specs = [rnd_call_spec() for _ in range(R.randint(0, 3))]
        sid = R.choice(["v1", "v2", "", None, 5, "temp", "zz"])
        method = R.choice(
            ["qartod.gross_range_test", "qartod.spike_test", "axds.valid_range_test", "nope", "", "qartod.aggregate", f"{__name__}._plain", shared_qartod.spike_test, None, 5],
        )
        if call_specs and R.random() < 0.5:  # something that is there
            picked = R.choice(call_specs)
            sid = picked[0]
            if isinstance(getattr(picked[1], "__module__", None), str) and hasattr(picked[1], "__name__") and R.random() < 0.8:
                method = "{}.{}".format(picked[1].__module__.replace("ioos_qc.", ""), picked[1].__name__)
        add_kind = R.choice(["call", "calls", "self", "config", "ns", "junk"])

        def build(side):
            calls = [make_call(side, s) for s in call_specs]
            return config_of(side, calls), calls

        def safe(side, calls, obj):
            """Replace Call objects by their index in the construction list."""
            if isinstance(obj, side.config.Call):
                for k, c in enumerate(calls):
                    if c is obj:
                        return ("call", k)
                return ("othercall", describe_call(side, obj))
            if isinstance(obj, list):
                return [safe(side, calls, o) for o in obj]
            if isinstance(obj, dict):
                return [(describe_ctx(k), safe(side, calls, v)) for k, v in obj.items()]
            return obj

        def describe_ctx(ctx):
            return (tuple(ctx.window), ctx.region, ctx.attrs)

        def mk(name, fn):
            def make(side):
                cfg, calls = build(side)

                def thunk():
                    return safe(side, calls, fn(side, cfg, calls))

                def extras():
                    return OrderedDict(calls=safe(side, calls, list(cfg._calls)), n=len(cfg._calls))

                return thunk, extras

            check(name, (call_specs, sid, method), make)

        mk("Config.contexts", lambda side, cfg, calls: cfg.contexts)
        mk("Config.contexts", lambda side, cfg, calls: [type(cfg.contexts).__name__, [type(v).__name__ for v in cfg.contexts.values()]])
        # the key of a group is the context object of its first call
        mk("Config.contexts", lambda side, cfg, calls: [k is v[0].context for k, v in cfg.contexts.items()])
        mk("Config.stream_ids", lambda side, cfg, calls: cfg.stream_ids)
        mk("Config.calls", lambda side, cfg, calls: (cfg.calls is cfg._calls, cfg.calls))
        mk("Config.aggregate_calls", lambda side, cfg, calls: cfg.aggregate_calls)
        mk("Config.has", lambda side, cfg, calls: cfg.has(sid, method))
        mk("Config.calls_by_stream_id", lambda side, cfg, calls: (cfg.calls_by_stream_id(sid), cfg.calls_by_stream_id(sid) is not cfg._calls))

        def do_add(side, cfg, calls):
            extra = [make_call(side, s) for s in extra_specs]
            calls.extend(extra)
            before = cfg._calls
            if add_kind == "call":
                src = extra[0] if extra else []
            elif add_kind == "calls":
                src = extra
            elif add_kind == "self":
                src = cfg
            elif add_kind == "config":
                src = config_of(side, extra)
            elif add_kind == "ns":
                src = types.SimpleNamespace(calls=tuple(extra))
            else:
                src = 5
            ret = cfg.add(src)
            return (ret, before is cfg._calls, list(cfg._calls))

        mk("Config.add", do_add)


# --------------------------------------------------------------------------------------
# 6-8. stores
# --------------------------------------------------------------------------------------
NAME_POOL = [None, "", "v1", "v2", "1abc", "_x", "a.b c", "temp-1", "ünï", 0, 5, "qartod", "gross_range_test", "spike_test", "rollup"]


def test_column_name():
    for i in range(N):
        sid, pkg, tst = R.choice(NAME_POOL), R.choice(NAME_POOL), R.choice(NAME_POOL)
        use_ns = R.random() < 0.3

        def make(side):
            if use_ns:
                cr = types.SimpleNamespace(stream_id=sid, package=pkg, test=tst)
            else:
                cr = side.results.CollectedResult(stream_id=sid, package=pkg, test=tst, function=None)
            return (lambda: side.stores.column_from_collected_result(cr)), None

        check("column_from_collected_result", (sid, pkg, tst), make)


def rnd_flags(n):
    kind = R.choice(["ma", "ma", "plain", "maskedsome", "float"])
    vals = [R.choice([1, 1, 1, 2, 3, 4, 9]) for _ in range(n)]
    if kind == "ma":
        return np.ma.array(vals, dtype="uint8")
    if kind == "plain":
        return np.array(vals, dtype="uint8")
    if kind == "float":
        return np.ma.array(vals, dtype="float64")
    return np.ma.array(vals, mask=[R.random() < 0.3 for _ in range(n)], dtype="uint8")


def rnd_collected_specs(n, uniform=True):
    specs = []
    for _ in range(R.randint(0, 5)):
        m = n if uniform or R.random() < 0.7 else R.randint(0, 8)
        axis = lambda gen: R.choice([None, None, gen(m), gen(0)])  # noqa: E731
        specs.append(
            dict(
                stream_id=R.choice([None, "", "v1", "v2", "time", "z"]),
                package=R.choice(["qartod", "axds", "", None]),
                test=R.choice(["gross_range_test", "spike_test", "rollup", "", None, "a b"]),
                function=R.choice([shared_qartod.gross_range_test, shared_qartod.spike_test, shared_qartod.aggregate, None]),
                results=rnd_flags(m) if R.random() < 0.95 else rnd_flags(m).reshape(1, m),
                data=R.choice([None, rnd_array(m)]),
                tinp=axis(lambda k: np.array(rnd_times(k), dtype="datetime64[ns]")),
                zinp=axis(lambda k: np.array(rnd_floats(k))),
                lat=axis(lambda k: np.ma.array(rnd_floats(k, lo=-90, hi=90))),
                lon=axis(lambda k: np.array(rnd_floats(k, lo=-180, hi=180))),
            ),
        )
    return specs


def make_store(side, specs, axes):
    store = side.stores.PandasStore([], axes=copy.deepcopy(axes))
    store.collected_results = [side.results.CollectedResult(**copy.deepcopy(s)) for s in specs]
    return store


def describe_collected(crs):
    return [OrderedDict((f.name, getattr(c, f.name)) for f in dataclasses.fields(c)) | {"cls": Opaque(_ident(type(c)))} for c in crs]


def test_compute_aggregate():
    for i in range(N):
        n = R.randint(0, 8)
        specs = rnd_collected_specs(n, uniform=R.random() < 0.85)
        name = R.choice([None, "rollup", "qc_rollup", "", 5])
        positional = R.random() < 0.5

        def make(side):
            store = make_store(side, specs, None)
            before = store.collected_results

            def thunk():
                if name is None:
                    return store.compute_aggregate()
                return store.compute_aggregate(name) if positional else store.compute_aggregate(name=name)

            def extras():
                return OrderedDict(same_list=store.collected_results is before, collected=describe_collected(store.collected_results))

            return thunk, extras

        check("PandasStore.compute_aggregate", (specs, name), make)


def test_store_save():
    for i in range(N):
        n = R.randint(0, 8)
        specs = rnd_collected_specs(n, uniform=R.random() < 0.9)
        axes = R.choice([None, None, {"t": "time", "z": "depth", "y": "latitude", "x": "longitude"}, {"t": "v1", "z": "z", "y": "lat", "x": "lon"}, {"t": "time", "z": "z", "x": "lon"}, {"t": "a", "z": "a", "y": "a", "x": "a"}])
        pool = [shared_qartod.gross_range_test, shared_qartod.spike_test, "v1", "v2", "spike_test", "rollup", None, "", "nothing"]
        pick = lambda: R.choice([None, None, [], R.sample(pool, R.randint(1, 3)), tuple(R.sample(pool, 2))])  # noqa: E731
        kwargs = {}
        if R.random() < 0.7:
            kwargs["write_data"] = R.choice([True, False, 1, 0, "yes"])
        if R.random() < 0.6:
            kwargs["write_axes"] = R.choice([True, True, False, 1, None])
        if R.random() < 0.6:
            kwargs["include"] = pick()
        if R.random() < 0.6:
            kwargs["exclude"] = pick()
        positional = R.random() < 0.2

        def make(side):
            store = make_store(side, specs, axes)
            kw = copy.deepcopy({k: v for k, v in kwargs.items() if not callable(v)})
            for k in ("include", "exclude"):
                if k in kwargs:
                    kw[k] = copy.copy(kwargs[k])

            def thunk():
                if positional:
                    return store.save(kw.get("write_data", False), kw.get("write_axes", True), kw.get("include"), kw.get("exclude"))
                return store.save(**kw)

            def extras():
                return OrderedDict(collected=describe_collected(store.collected_results), kwargs=kw, axes=store.axes)

            return thunk, extras

        check("PandasStore.save", (specs, axes, kwargs), make)


# --------------------------------------------------------------------------------------
# 9. fx_parser
# --------------------------------------------------------------------------------------
def rnd_expr(depth=0):
    if depth == 0 and R.random() < 0.12:
        # well formed two argument call: the order of the arguments matters
        value = R.choice(["mean", "std * 3.14159", "max / 7", "2.71828", "PI", "(min + max) / 3"])
        # (number literals evaluate to floats, which round() refuses as digits: go through trunc)
        digits = R.choice(["trunc(0)", "trunc(1.5)", "trunc(2.5)", "trunc(3)", "1"])
        tail = R.choice(["", " + std", " * 2", " - round(max / 3, 1)"])
        return f"round({value}, {digits}){tail}"
    r = R.random()
    if depth > 3 or r < 0.3:
        return R.choice(["mean", "min", "max", "std", "PI", "E", "pi", "e", "3", "2.5", "1e2", "0", "-4", "+2", "7.", "foo", "x1", "mean2"])
    if r < 0.6:
        op = R.choice(["+", "-", "*", "/", "^"])
        sp = R.choice(["", " "])
        return f"{rnd_expr(depth + 1)}{sp}{op}{sp}{rnd_expr(depth + 1)}"
    if r < 0.7:
        return f"({rnd_expr(depth + 1)})"
    if r < 0.8:
        return f"{R.choice(['-', '--', '-+-', '+'])}{rnd_expr(depth + 1)}"
    if r < 0.95:
        name = R.choice(["sin", "cos", "tan", "exp", "abs", "trunc", "round", "round", "sgn", "nofn", "mean"])
        nargs = R.choice([1, 2, 2]) if name == "round" else R.choice([1, 1, 1, 2, 0])
        args = ", ".join(rnd_expr(depth + 1) for _ in range(nargs))
        if name == "round" and nargs == 2 and R.random() < 0.7:  # round(<float>, <int digits>)
            args = f"{R.choice(['mean', 'std', '2.71828', 'PI', 'max / 7'])}, trunc({R.choice(['1', '2', '0', '3'])})"
        return f"{name}({args})"
    return R.choice(["", "3 +", "((2)", "2 ** 3", "1 / 0", "0 ^ -1", "$", "mean mean", "3 3", "1e400 * 0", "9 ^ 9 ^ 9 ^ 9"])


def rnd_stats():
    r = R.random()
    if r < 0.8:
        return {"min": R.uniform(-5, 5), "max": R.uniform(10, 30), "mean": R.uniform(5, 10), "std": R.uniform(0, 3)}
    if r < 0.9:
        return {"min": np.float64(1.5), "max": np.float32(20), "mean": np.nan, "std": 2}
    return R.choice([{}, {"mean": 1}, None])


def test_fx():
    # push_first / push_unary_minus on token lists
    for i in range(N):
        toks = [R.choice(["-", "-", "+", "3", "mean", ("sin", 1), "", "- "]) for _ in range(R.randint(0, 5))]
        prefill = [R.choice(["1", "+", "unary -"]) for _ in range(R.randint(0, 3))]

        def make_pf(side, fn_name):
            def make(side=side):
                stack = side.fx.exprStack
                stack[:] = prefill
                mine = list(toks)

                def extras():
                    return OrderedDict(stack=list(stack), same=side.fx.exprStack is stack, toks=mine)

                return (lambda: getattr(side.fx, fn_name)(mine)), extras

            return make

        check("push_first", (toks, prefill), lambda side: make_pf(side, "push_first")())
        check("push_unary_minus", (toks, prefill), lambda side: make_pf(side, "push_unary_minus")())
    # with real pyparsing results
    import pyparsing as pp

    for i in range(200):
        text = " ".join(R.choice(["-", "-", "+", "3", "x"]) for _ in range(R.randint(1, 5)))
        res = (pp.Literal("-") | pp.Literal("+") | pp.Word(pp.alphanums))[...].parseString(text)

        def make(side, name):
            stack = side.fx.exprStack
            stack[:] = []
            return (lambda: getattr(side.fx, name)(res)), (lambda: list(stack))

        if len(res):
            check("push_first", text, lambda side: make(side, "push_first"))
        check("push_unary_minus", text, lambda side: make(side, "push_unary_minus"))

    for side in (NEW, OLD):
        side.fx.exprStack[:] = []

    # eval_fx: the same sequence of expressions on both sides (the stack is module state)
    for i in range(N):
        fx = rnd_expr()
        stats = rnd_stats()
        if R.random() < 0.02:
            fx = R.choice([None, 5])

        def make(side):
            st = copy.deepcopy(stats)
            return (lambda: side.fx.eval_fx(fx, st)), (lambda: OrderedDict(stack=list(side.fx.exprStack), stats=st))

        check("eval_fx", (fx, stats), make)
        if i % 50 == 49:
            for side in (NEW, OLD):
                side.fx.exprStack[:] = []

    # evaluate_stack on stacks from real parses and on scrambled / junk stacks
    for i in range(N):
        stats = rnd_stats()
        mode = R.random()
        stacks = {}
        fx = rnd_expr()
        for side in (NEW, OLD):
            side.fx.exprStack[:] = []
            try:
                side.fx.BNF().parseString(fx, parseAll=True)
            except Exception:  # noqa: BLE001
                pass
            stacks[side.top] = list(side.fx.exprStack)
            side.fx.exprStack[:] = []
        assert same(stacks[NEW.top], stacks[OLD.top]) is None, (fx, stacks)
        base = stacks[NEW.top]
        if mode < 0.5:
            stack = list(base)
        elif mode < 0.75:
            stack = list(base)
            R.shuffle(stack)
            if stack and R.random() < 0.5:
                stack.pop(R.randrange(len(stack)))
        else:
            stack = [
                R.choice(["+", "-", "*", "/", "^", "unary -", "PI", "E", "mean", "min", "max", "std", "3", "2.5", "foo", "", "+-", "1e3", ("sin", 1), ("round", 2), ("abs", 0), ("nofn", 1), ("mean", 1), ("trunc", "x"), "sin", 7, None, "nan", "inf", "_a", "é"])
                for _ in range(R.randint(0, 6))
            ]

        def make(side):
            s = list(stack)
            st = copy.deepcopy(stats)
            return (lambda: side.fx.evaluate_stack(s, st)), (lambda: OrderedDict(rest=s, stats=st, module_stack=list(side.fx.exprStack)))

        check("evaluate_stack", (stack, stats), make)


# --------------------------------------------------------------------------------------
# 10-11. config_creator
# --------------------------------------------------------------------------------------
def test_validate_fx():
    vocab = ["min", "max", "mean", "std", "+", "-", "*", "/", "(", ")", "3", "2.5", "1e3", "nan", "inf", "-4", "", "foo", "mean+1", "^", "(mean", "MEAN", " ", "1_0", "0x1", "١"]
    for i in range(N):
        toks = [R.choice(vocab) for _ in range(R.randint(0, 6))]
        fx = R.choice([" ", " ", " ", "  ", "\t"]).join(toks)
        if R.random() < 0.02:
            fx = R.choice([None, 5, ["mean"]])
        name = R.choice(["suspect_min", "fail_max", "", None, 3])

        def make(side):
            obj = side.cc.QcVariableConfig.__new__(side.cc.QcVariableConfig)
            return (lambda: obj._validate_fx(fx, name)), (lambda: dict(obj))

        check("QcVariableConfig._validate_fx", (fx, name), make)
    # through the constructor as well
    for i in range(300):
        tests = {
            "gross_range_test": {
                k: " ".join(R.choice(["mean", "std", "+", "-", "3", "(", ")", "bad", "*"]) for _ in range(R.randint(1, 4)))
                for k in ("suspect_min", "suspect_max", "fail_min", "fail_max")
            },
        }
        cfg = {"variable": "temp", "bbox": [0, 0, 1, 1], "start_time": "2021-01-01", "end_time": "2021-02-01", "tests": tests}

        def make(side):
            return (lambda: dict(side.cc.QcVariableConfig(copy.deepcopy(cfg)))), None

        check("QcVariableConfig._validate_fx", cfg, make)


def rnd_dataset(three_d, nan_mode, time_mode):
    year = R.choice([2020, 2021])
    if time_mode == "mid":
        times = [datetime.datetime(year, m, 15) for m in range(1, 13)]
    elif time_mode == "jan1":
        times = [datetime.datetime(year, m, 1) for m in range(1, 13)]
    elif time_mode == "dec31":
        times = [datetime.datetime(2020, m, 28) for m in range(1, 12)] + [datetime.datetime(2020, 12, 31)]
    else:
        times = [datetime.datetime(year, m, 15) for m in range(1, 13, 2)]
    nlat, nlon = R.randint(2, 5), R.randint(2, 5)
    lat0, lon0 = R.uniform(-60, 50), R.uniform(-170, 150)
    lats = np.round(lat0 + np.arange(nlat) * R.choice([0.5, 1.0, 2.0]), 3)
    lons = np.round(lon0 + np.arange(nlon) * R.choice([0.5, 1.0, 2.0]), 3)
    shape = (len(times), 2, nlat, nlon) if three_d else (len(times), nlat, nlon)
    data = NP.normal(10, 3, size=shape)
    if nan_mode == "all":
        data[:] = np.nan
    elif nan_mode == "cells":  # the same cells through time
        holes = NP.random(size=(nlat, nlon)) < 0.4
        data[..., holes] = np.nan
    elif nan_mode == "ragged":  # differs through time -> the reshape fails
        data[NP.random(size=shape) < 0.2] = np.nan
    elif nan_mode == "zeros":
        data[:] = 0.0
    dims = ("time", "depth", "lat", "lon") if three_d else ("time", "lat", "lon")
    coords = {"time": times, "lat": lats, "lon": lons}
    if three_d:
        coords["depth"] = [0.0, 10.0]
    return xr.Dataset({"t": (dims, data)}, coords=coords)


def make_creator(side, ds, three_d):
    creator = side.cc.QcConfigCreator.__new__(side.cc.QcConfigCreator)
    entry = {"file_path": "none.nc", "variables": {"temp": "t"}}
    if three_d:
        entry["3d"] = "depth"
    creator.config = {"other": {"file_path": "x", "variables": {"salt": "s"}}, "ds": entry}
    creator.datasets = {"ds": ds.copy(deep=True), "other": None}
    return creator


def rnd_bbox(ds, far_ok=True):
    lats, lons = ds["lat"].values, ds["lon"].values
    r = R.random()
    if r < 0.25:
        # the edges of the box sit exactly on grid points (inclusive comparisons matter)
        i, k = sorted(R.choice(range(len(lons))) for _ in range(2))
        j, m = sorted(R.choice(range(len(lats))) for _ in range(2))
        return [float(lons[i]), float(lats[j]), float(lons[k]), float(lats[m])]
    if r < 0.55:
        box = [lons.min() - R.uniform(0, 1), lats.min() - R.uniform(0, 1), lons.max() + R.uniform(0, 1), lats.max() + R.uniform(0, 1)]
    elif r < 0.8:
        i, j = R.randrange(len(lons)), R.randrange(len(lats))
        box = [lons[i] - 0.1, lats[j] - 0.1, lons[i] + R.uniform(0.1, 3), lats[j] + R.uniform(0.1, 3)]
    elif far_ok:
        d = R.choice([0.3, 1.2, 3.0])
        box = [lons.max() + d, lats.max() + d, lons.max() + d + 0.2, lats.max() + d + 0.2]
    else:
        box = [lons.min(), lats.min(), lons.max(), lats.max()]
    box = [float(np.round(v, 2)) for v in box]
    form = R.random()
    if form < 0.7:
        return box
    if form < 0.85:
        return tuple(box)
    return [int(v) for v in box]


def rnd_slice(fmt_str=False):
    year = R.choice([2020, 2021, 2019])
    start = datetime.datetime(year, 1, 1) + datetime.timedelta(days=R.randint(0, 364))
    r = R.random()
    if r < 0.75:
        days = R.randint(1, 120)
    elif r < 0.9:
        days = R.randint(121, 365)
    elif r < 0.95:
        days = R.choice([0, 366, 400])
    else:
        days = -R.randint(1, 30)
    stop = start + datetime.timedelta(days=days)
    if fmt_str:
        return start.strftime("%Y-%m-%d"), stop.strftime("%Y-%m-%d")
    return slice(start, stop)


def test_config_creator_subset():
    for i in range(N):
        three_d = R.random() < 0.3
        nan_mode = R.choice(["none", "none", "cells", "cells", "all", "ragged", "zeros"])
        if nan_mode == "all" and R.random() < 0.7:
            nan_mode = "cells"
        ds = rnd_dataset(three_d, nan_mode, R.choice(["mid", "mid", "jan1", "dec31", "sparse"]))
        bbox = rnd_bbox(ds)
        ts = rnd_slice()
        kwargs = {}
        if R.random() < 0.6:
            kwargs["pad_delta"] = R.choice([0.5, 1, 2.5, 30, 100, 0])
            if nan_mode in ("all", "ragged"):  # these pad all the way to the whole globe
                kwargs["pad_delta"] = R.choice([30, 100, 45.5])
        elif nan_mode in ("all", "ragged") and i % 40:
            kwargs["pad_delta"] = 60
        if R.random() < 0.3:
            kwargs["depth"] = R.choice([0, 1, 5]) if three_d else R.choice([0, 1])
        var = "temp" if R.random() < 0.97 else R.choice(["salt", "nope"])
        if R.random() < 0.02:
            bbox = R.choice([["-180", "-90", "180", "90"], [1, 2], None])

        def make(side):
            creator = make_creator(side, ds, three_d)
            box = copy.deepcopy(bbox)
            return (lambda: creator._get_subset(var, box, ts, **kwargs)), (lambda: OrderedDict(bbox=box, ds=creator.datasets["ds"]))

        check("QcConfigCreator._get_subset", (nan_mode, bbox, ts, kwargs, var), make)


def test_config_creator_stats():
    for i in range(N):
        three_d = R.random() < 0.3
        nan_mode = R.choice(["none", "none", "cells", "cells", "ragged", "zeros", "all"])
        if nan_mode in ("all", "ragged") and R.random() < 0.95:
            # (these pad in steps of 0.5 degrees up to the whole globe: keep them rare)
            nan_mode = R.choice(["none", "cells"])
        ds = rnd_dataset(three_d, nan_mode, R.choice(["mid", "mid", "jan1", "dec31", "sparse"]))
        bbox = rnd_bbox(ds, far_ok=R.random() < 0.3)
        start, end = rnd_slice(fmt_str=True)
        vc = OrderedDict(variable="temp", bbox=bbox, start_time=start, end_time=end, tests={})
        r = R.random()
        if r < 0.03:
            vc["start_time"] = R.choice(["2021/01/01", "garbage", None, 20210101])
        elif r < 0.05:
            del vc[R.choice(["variable", "bbox", "start_time", "end_time"])]
        elif r < 0.07:
            vc["variable"] = "nope"
        if R.random() < 0.5:
            vc = dict(R.sample(list(vc.items()), len(vc)))

        def make(side):
            creator = make_creator(side, ds, three_d)
            conf = copy.deepcopy(vc)

            def thunk():
                stats = creator._get_stats(conf)
                return OrderedDict((k, (type(v).__name__, v)) for k, v in stats.items())

            return thunk, (lambda: conf)

        check("QcConfigCreator._get_stats", (nan_mode, vc), make)


# --------------------------------------------------------------------------------------
# 12-13. streams
# --------------------------------------------------------------------------------------
def rnd_stream_config_spec(stream_ids, times):
    return OrderedDict(contexts=[rnd_context_spec(stream_ids, times) for _ in range(R.randint(1, 3))])


def test_pandas_stream():
    for i in range(N):
        n = R.randint(0, 8)
        times = rnd_times(n)
        names = {"time": R.choice(["time", "time", "t"]), "z": R.choice(["z", "z", "depth"]), "lat": R.choice(["lat", "latitude"]), "lon": R.choice(["lon", "longitude"])}
        cols = OrderedDict()
        if R.random() < 0.85:
            tkind = R.random()
            if tkind < 0.8:
                cols[names["time"]] = pd.Series(times, dtype="datetime64[ns]")
            elif tkind < 0.9:
                cols[names["time"]] = pd.Series(times, dtype="datetime64[ns]").dt.tz_localize("UTC")
            else:
                cols[names["time"]] = pd.Series([(t - T0).total_seconds() for t in times], dtype="float64")
        if R.random() < 0.6:
            cols[names["z"]] = pd.Series(rnd_floats(n, lo=0, hi=100), dtype="float64")
        if R.random() < 0.6:
            cols[names["lat"]] = pd.Series(rnd_floats(n, lo=-95, hi=95), dtype="float64")
            cols[names["lon"]] = pd.Series(rnd_floats(n, lo=-185, hi=185), dtype="float64")
        for sid in ("v1", "v2"):
            if R.random() < 0.85:
                kind = R.random()
                if kind < 0.7:
                    cols[sid] = pd.Series(rnd_floats(n), dtype="float64")
                elif kind < 0.85:
                    cols[sid] = pd.Series([R.randint(0, 30) for _ in range(n)], dtype="int64")
                else:
                    cols[sid] = pd.Series([None if R.random() < 0.2 else v for v in rnd_floats(n)], dtype=object)
        items = list(cols.items())
        if R.random() < 0.5:
            R.shuffle(items)
        index_kind = R.choice(["range", "range", "offset", "dups", "str"])
        if index_kind == "range":
            index = None
        elif index_kind == "offset":
            index = list(range(10, 10 + n))
        elif index_kind == "dups":
            index = [R.choice([0, 1, 2]) for _ in range(n)]
        else:
            index = [f"r{k}" for k in range(n)]
        df = pd.DataFrame(OrderedDict((k, v.to_numpy() if index is not None else v) for k, v in items), index=index)
        ctor = {}
        for axis, default in (("time", "time"), ("z", "z"), ("lat", "lat"), ("lon", "lon")):
            if names[axis] != default or R.random() < 0.2:
                ctor[axis] = names[axis]
        if R.random() < 0.05:
            ctor["time"] = "v1"  # the data column doubles as the time column
        spec = rnd_stream_config_spec(["v1", "v2", "v3"], times)
        # windows must be comparable with the time column: drop them for non datetime columns
        case = (df.to_dict("list"), index, ctor, spec)

        def make(side):
            frame = df.copy(deep=True)
            holder = {}

            def thunk():
                cfg = side.config.Config(copy.deepcopy(spec))
                stream = side.streams.PandasStream(frame, **ctor)
                holder["stream"] = stream
                gen = stream.run(cfg)
                assert isinstance(gen, types.GeneratorType)
                out = list(gen)
                assert all(type(r) is side.results.ContextResult for r in out)
                return out

            def extras():
                st = holder.get("stream")
                return OrderedDict(frame=frame, attrs=None if st is None else {k: v for k, v in vars(st).items() if k != "df"})

            return thunk, extras

        outs = check("PandasStream.run", case, make)
        # downstream consumers agree as well
        if i % 5 == 0 and outs[0].error is None and outs[1].error is None:
            def make2(side, res):
                return (lambda: side.stores.PandasStore(res).save(write_data=True)), None

            COUNTS["PandasStream.run->store"] = COUNTS.get("PandasStream.run->store", 0) + 1
            a = observe(NEW, lambda: NEW.stores.PandasStore(outs[0].value).save(write_data=True))
            b = observe(OLD, lambda: OLD.stores.PandasStore(outs[1].value).save(write_data=True))
            d = same(a, b)
            if d:
                FAILURES.append(("PandasStream.run->store", case, d))
                print("MISMATCH in PandasStream.run->store", d)


def test_numpy_stream():
    for i in range(N):
        n = R.randint(0, 8)
        times = rnd_times(n)
        kind = R.choice(["array", "array", "array", "dict", "dict", "none", "list", "emptydict", "2d"])
        if kind == "array":
            inp = rnd_array(n)
        elif kind == "dict":
            inp = OrderedDict((sid, rnd_array(n)) for sid in R.sample(["v1", "v2", "v3"], R.randint(1, 3)))
            if R.random() < 0.1:
                inp[next(iter(inp))] = rnd_array(R.randint(0, 8))  # mismatching length
        elif kind == "none":
            inp = None
        elif kind == "list":
            inp = R.choice([rnd_floats(n), 5, "abc"])
        elif kind == "emptydict":
            inp = {}
        else:
            inp = np.array(rnd_floats(n * 2)).reshape(n, 2)
        ctor = {}
        if R.random() < 0.75:
            tk = R.random()
            if tk < 0.6:
                ctor["time"] = np.array(times, dtype="datetime64[ns]")
            elif tk < 0.75:
                ctor["time"] = pd.DatetimeIndex(times)
            elif tk < 0.85:
                ctor["time"] = pd.Series(times, dtype="datetime64[ns]").dt.tz_localize("UTC")
            elif tk < 0.95:
                ctor["time"] = np.array([(t - T0).total_seconds() for t in times])
            else:
                ctor["time"] = np.array(rnd_times(R.randint(0, 8)), dtype="datetime64[ns]")  # wrong length
        if R.random() < 0.5:
            ctor["z"] = np.array(rnd_floats(n, lo=0, hi=100))
        r = R.random()
        if r < 0.4:
            ctor["lat"] = np.array(rnd_floats(n, lo=-95, hi=95))
            ctor["lon"] = np.array(rnd_floats(n, lo=-185, hi=185))
        elif r < 0.5:
            ctor["lat"] = np.array(rnd_floats(n, lo=-95, hi=95))
        if R.random() < 0.1:
            ctor["geom"] = np.array([None] * n, dtype=object)
        spec = rnd_stream_config_spec(["v1", "v2", "v3"], times)
        if kind == "none" and R.random() < 0.8:
            # the data rides in the config (backwards compatibility path)
            for ctx in spec["contexts"]:
                for sid, packages in ctx["streams"].items():
                    for tests in packages.values():
                        for tname, kw in list(tests.items()):
                            if isinstance(kw, dict) and R.random() < 0.7:
                                kw["inp"] = rnd_floats(n) if R.random() < 0.8 else rnd_floats(R.randint(0, 8))
        case = (kind, inp, ctor, spec)

        def make(side):
            data = copy.deepcopy(inp)
            kw = copy.deepcopy(ctor)
            holder = {}

            def thunk():
                cfg = side.config.Config(copy.deepcopy(spec))
                holder["cfg"] = cfg
                stream = side.streams.NumpyStream(data, **kw)
                holder["stream"] = stream
                gen = stream.run(cfg)
                assert isinstance(gen, types.GeneratorType)
                out = list(gen)
                assert all(type(r) is side.results.ContextResult for r in out)
                shared = [[a.subset_indexes is b.subset_indexes for b in out] for a in out]
                return OrderedDict(results=out, shared_subset=shared)

            def extras():
                st = holder.get("stream")
                return OrderedDict(
                    data=data,
                    ctor=kw,
                    stream=None if st is None else dict(vars(st)),
                    inp_is_data=None if st is None else st.inp is data,
                )

            return thunk, extras

        outs = check("NumpyStream.run", case, make)
        if i % 5 == 0 and outs[0].error is None and outs[1].error is None:
            COUNTS["NumpyStream.run->collect"] = COUNTS.get("NumpyStream.run->collect", 0) + 1
            a = observe(NEW, lambda: [describe_collected(NEW.results.collect_results(outs[0].value["results"], "list")), NEW.results.collect_results(outs[0].value["results"], "dict")])
            b = observe(OLD, lambda: [describe_collected(OLD.results.collect_results(outs[1].value["results"], "list")), OLD.results.collect_results(outs[1].value["results"], "dict")])
            d = same(a, b)
            if d:
                FAILURES.append(("NumpyStream.run->collect", case, d))
                print("MISMATCH in NumpyStream.run->collect", d)

    # laziness: nothing happens before the first next(), and one result is produced per step
    for i in range(200):
        n = R.randint(1, 8)
        times = rnd_times(n)
        spec = rnd_stream_config_spec(["v1", "v2"], times)
        inp = OrderedDict(v1=np.array(rnd_floats(n)), v2=np.array(rnd_floats(n)))

        def make(side):
            def thunk():
                cfg = side.config.Config(copy.deepcopy(spec))
                CAPTURES[side.top].records = []
                gen = side.streams.NumpyStream(copy.deepcopy(inp), time=np.array(times, dtype="datetime64[ns]")).run(cfg)
                df = pd.DataFrame({"time": times, **inp})
                gen2 = side.streams.PandasStream(df).run(cfg)
                trace = [len(CAPTURES[side.top].records)]
                for g in (gen, gen2):
                    for res in g:
                        trace.append((res.stream_id, len(CAPTURES[side.top].records)))
                return trace

            return thunk, None

        check("streams.laziness", spec, make)


# --------------------------------------------------------------------------------------
def main():
    tests = [
        test_call_properties,
        test_call_run,
        test_context_config,
        test_config_init,
        test_config_helpers,
        test_column_name,
        test_compute_aggregate,
        test_store_save,
        test_fx,
        test_validate_fx,
        test_config_creator_subset,
        test_config_creator_stats,
        test_pandas_stream,
        test_numpy_stream,
    ]
    only = os.environ.get("EQUIV_ONLY")
    import time

    for t in tests:
        if only and only not in t.__name__:
            continue
        t0 = time.time()
        t()
        print(f"  {t.__name__}: done in {time.time() - t0:.1f}s", flush=True)

    print()
    for label, count in COUNTS.items():
        bad = len([f for f in FAILURES if f[0] == label])
        kinds = ", ".join(f"{k}={v}" for k, v in sorted(KINDS.get(label, {}).items()))
        print(f"{label:34s} {count:6d} inputs  {'OK' if not bad else f'{bad} MISMATCHES'}   [{kinds}]")
    if FAILURES:
        print(f"\n{len(FAILURES)} mismatches")
        return 1
    print("\nall equivalent")
    return 0


if __name__ == "__main__":
    sys.exit(main())
