#!/usr/bin/env python
"""Differential test: refactored ioos_qc (this worktree) against the original in /repo.

Run as:  PYTHONPATH=<worktree> /venv/bin/python equiv.py [-n CASES_PER_FUNCTION] [-s SEED]

For every QC test function whose input normalisation / result assembly was rewritten, generate
inputs (series of length 0..8 with NaN / None / inf, in many container types: lists, tuples,
float / int / uint8 / float32 arrays, masked arrays, pandas Series incl. object and nullable
dtypes, dask arrays, 0-d scalars, 2-d / Fortran-ordered / strided arrays), call both
implementations and compare
  * the exception type, or
  * the result: type, dtype, shape, raw data bytes, mask (nomask vs array, shape, bytes),
    fill_value, hardmask / sharedmask, array flags,
  * the warnings that escaped the call (category + text) and the log records emitted,
  * that neither implementation mutated its arguments.
Exit status 0 means no difference was found.
"""

import argparse
import atexit
import copy
import datetime as dt
import importlib
import importlib.util
import logging
import os
import shutil
import subprocess
import sys
import tempfile
import time
import warnings

import numpy as np
import pandas as pd

try:
    import dask.array as da
except ImportError:  # pragma: no cover
    da = None

HERE = os.path.dirname(os.path.abspath(__file__))
ORIG_ROOT = "/repo/ioos_qc"


# --------------------------------------------------------------------------------------------
# Loading the two packages
# --------------------------------------------------------------------------------------------
def snapshot_original():
    """A private copy of /repo/ioos_qc/*.py, checked against the commit /repo has checked out.

    Other jobs on this machine were seen to rewrite files under /repo for a short time (and put
    them back).  Importing straight from /repo while that happens compares the refactoring with
    somebody else's experiment, so the sources are copied first, the copy is compared with
    ``git -C /repo show HEAD:...`` and the copy (retried, or as a last resort the committed blobs)
    is what gets imported.
    """
    tmp = tempfile.mkdtemp(prefix="ioos_qc_orig_")
    atexit.register(shutil.rmtree, tmp, True)
    dest = os.path.join(tmp, "ioos_qc")
    needed = ["__init__.py", "utils.py", "qartod.py", "argo.py", "axds.py"]

    def committed(name):
        try:
            return subprocess.run(
                ["git", "-C", os.path.dirname(ORIG_ROOT), "show", f"HEAD:ioos_qc/{name}"],
                check=True, capture_output=True,
            ).stdout
        except Exception:  # noqa: BLE001
            return None

    stale = []
    for _attempt in range(6):
        shutil.rmtree(dest, ignore_errors=True)
        os.makedirs(dest)
        for name in os.listdir(ORIG_ROOT):
            if name.endswith(".py"):
                shutil.copyfile(os.path.join(ORIG_ROOT, name), os.path.join(dest, name))
        stale = []
        for name in needed:
            blob = committed(name)
            with open(os.path.join(dest, name), "rb") as fh:
                if blob is not None and fh.read() != blob:
                    stale.append((name, blob))
        if not stale:
            break
        time.sleep(3)
    for name, blob in stale:
        print(f"note: /repo/ioos_qc/{name} differs from the commit checked out in /repo; using the committed version")
        with open(os.path.join(dest, name), "wb") as fh:
            fh.write(blob)
    return dest


def load_original():
    """Load (a checked snapshot of) /repo/ioos_qc under the top-level name ioos_qc_orig.

    The modules of the package import each other absolutely (``from ioos_qc.utils import ...``),
    so while the original is being loaded it is ALSO registered as ``ioos_qc``; afterwards every
    ``ioos_qc*`` entry is moved to ``ioos_qc_orig*`` so that the worktree package can be imported
    under its real name.  The original functions keep their own (original) module globals.
    """
    assert not any(k == "ioos_qc" or k.startswith("ioos_qc.") for k in sys.modules)
    src = snapshot_original()
    spec = importlib.util.spec_from_file_location(
        "ioos_qc_orig",
        os.path.join(src, "__init__.py"),
        submodule_search_locations=[src],
    )
    pkg = importlib.util.module_from_spec(spec)
    sys.modules["ioos_qc_orig"] = pkg
    sys.modules["ioos_qc"] = pkg
    spec.loader.exec_module(pkg)
    mods = {}
    for sub in ("utils", "qartod", "argo", "axds"):
        mods[sub] = importlib.import_module(f"ioos_qc.{sub}")
    for key in [k for k in sys.modules if k == "ioos_qc" or k.startswith("ioos_qc.")]:
        mod = sys.modules.pop(key)
        sys.modules["ioos_qc_orig" + key[len("ioos_qc"):]] = mod
    for sub, mod in mods.items():
        assert os.path.realpath(mod.__file__).startswith(os.path.realpath(src) + os.sep), mod.__file__
    return mods


ORIG = load_original()
importlib.invalidate_caches()
NEW = {sub: importlib.import_module(f"ioos_qc.{sub}") for sub in ("utils", "qartod", "argo", "axds")}
for _sub, _mod in NEW.items():
    assert os.path.realpath(_mod.__file__).startswith(os.path.realpath(HERE) + os.sep), (
        f"{_mod.__file__} is not inside the worktree {HERE}; run with PYTHONPATH=<worktree>"
    )
    assert _mod is not ORIG[_sub]


# --------------------------------------------------------------------------------------------
# Log capture
# --------------------------------------------------------------------------------------------
class _Capture(logging.Handler):
    def __init__(self):
        super().__init__(level=logging.DEBUG)
        self.records = []

    def emit(self, record):
        self.records.append((record.name, record.levelname, record.getMessage()))


CAPTURE = _Capture()
_root = logging.getLogger()
_root.addHandler(CAPTURE)
for _name in ("ioos_qc", "ioos_qc_orig"):
    logging.getLogger(_name).setLevel(logging.DEBUG)
logging.getLogger("ioos_qc").propagate = True
logging.lastResort = None


# --------------------------------------------------------------------------------------------
# Describing values exactly
# --------------------------------------------------------------------------------------------
def describe(x):
    """An exact, comparable description of a value (arguments and results)."""
    if da is not None and isinstance(x, da.Array):
        return ("dask", x.chunks, describe(x.compute()))
    if isinstance(x, np.ma.MaskedArray):
        m = x._mask
        if m is np.ma.nomask:
            mask = "nomask"
        else:
            mask = (type(m).__name__, str(m.dtype), m.shape, np.ascontiguousarray(m).tobytes())
        data = np.asarray(x.data)
        return (
            "masked",
            type(x).__name__,
            str(x.dtype),
            x.shape,
            _bytes(data),
            mask,
            repr(x._fill_value),  # (the fill_value property would cache a default: not read here)
            bool(x._hardmask),
            bool(x._sharedmask),
            repr(x._baseclass),
            bool(x.flags.writeable),
            bool(x.flags.owndata),
            bool(x.flags.c_contiguous),
        )
    if isinstance(x, np.ndarray):
        return (
            "ndarray",
            type(x).__name__,
            str(x.dtype),
            x.shape,
            _bytes(x),
            bool(x.flags.writeable),
            bool(x.flags.owndata),
            bool(x.flags.c_contiguous),
        )
    if isinstance(x, pd.Series):
        return ("series", str(x.dtype), repr(x.index.tolist()), repr(x.tolist()))
    if isinstance(x, pd.Index):
        return ("index", type(x).__name__, str(x.dtype), repr(x.tolist()))
    if isinstance(x, (list, tuple)):
        return (type(x).__name__, tuple(describe(v) for v in x))
    if isinstance(x, dict):
        return ("dict", tuple((repr(k), describe(v)) for k, v in x.items()))
    if isinstance(x, np.generic):
        return ("npscalar", type(x).__name__, repr(x))
    return (type(x).__name__, repr(x))


def _bytes(arr):
    if arr.dtype == object:
        return repr(arr.tolist())
    return np.ascontiguousarray(arr).tobytes()


def call(func, args, kwargs):
    """Call func on private copies of the arguments; return a comparable outcome."""
    a = copy.deepcopy(args)
    k = copy.deepcopy(kwargs)
    before = (describe(a), describe(k))
    del CAPTURE.records[:]
    with warnings.catch_warnings(record=True) as caught:
        warnings.simplefilter("always")
        try:
            res = func(*a, **k)
            outcome = ("ok", describe(res))
        except BaseException as e:  # noqa: BLE001
            if isinstance(e, (KeyboardInterrupt, SystemExit, MemoryError)):
                raise
            outcome = ("exc", type(e).__name__)
    warned = tuple((w.category.__name__, str(w.message)) for w in caught)
    logs = tuple((lvl, msg) for (_n, lvl, msg) in CAPTURE.records)
    mutated = (describe(a), describe(k)) != before
    return outcome, warned, logs, mutated


# --------------------------------------------------------------------------------------------
# Input generators
# --------------------------------------------------------------------------------------------
SPECIAL = [np.nan, np.inf, -np.inf]


def raw_values(rng, n, kind="any"):
    """n python values: small ints / floats with ties, plus NaN, inf and None."""
    out = []
    p_bad = rng.choice([0.0, 0.15, 0.4])
    for _ in range(n):
        r = rng.random()
        if r < p_bad:
            c = rng.integers(0, 5)
            out.append(None if c <= 1 else (np.nan if c <= 3 else SPECIAL[rng.integers(0, 3)]))
        elif kind == "lon":
            out.append(float(rng.choice([-181, -180, -90.5, -10, 0, 0.5, 10, 10, 90, 179.5, 180, 181, 200])))
        elif kind == "lat":
            out.append(float(rng.choice([-91, -90, -45.5, -10, 0, 0.5, 10, 10, 45, 89.5, 90, 91])))
        elif rng.random() < 0.6:
            out.append(int(rng.integers(-4, 6)))
        else:
            out.append(float(np.round(rng.normal(0, 3), rng.integers(0, 3))))
    return out


CONTAINERS_USUAL = [
    "list", "list", "list", "tuple", "f64", "f64", "f32", "int", "uint8", "masked", "masked", "masked_nomask",
    "masked_int", "series", "series_obj", "dask", "twod", "fortran", "strided", "reversed", "scalar", "objarr", "bool",
]
# these mostly end in an exception (pd.NA, unparsable strings, ragged / nested None)
CONTAINERS_ODD = ["series_Int64", "series_Float64", "strings", "nested_list", "complex_list", "complex_arr"]


def pick_container(rng):
    pool = CONTAINERS_ODD if rng.random() < 0.07 else CONTAINERS_USUAL
    return pool[rng.integers(0, len(pool))]


def _floats(vals):
    return np.array([np.nan if v is None else v for v in vals], dtype=np.float64)


def _ints(vals):
    f = _floats(vals)
    f = np.where(np.isfinite(f), f, 0)
    return f.astype(np.int64)


def wrap(rng, vals, container=None):
    """Put python values into one of many container types."""
    c = container or pick_container(rng)
    n = len(vals)
    if c == "list":
        return list(vals)
    if c == "tuple":
        return tuple(vals)
    if c == "f64":
        return _floats(vals)
    if c == "f32":
        return _floats(vals).astype(np.float32)
    if c == "int":
        return _ints(vals)
    if c == "uint8":
        return (_ints(vals) % 256).astype(np.uint8)
    if c == "bool":
        return _ints(vals) > 0
    if c == "masked":
        return np.ma.array(_floats(vals), mask=rng.random(n) < 0.3)
    if c == "masked_nomask":
        return np.ma.array(_floats(vals))
    if c == "masked_int":
        return np.ma.array(_ints(vals), mask=rng.random(n) < 0.3, fill_value=-7)
    if c == "series":
        return pd.Series(_floats(vals))
    if c == "series_obj":
        return pd.Series(list(vals), dtype=object)
    if c == "series_Int64":
        f = _floats(vals)
        return pd.Series([None if not np.isfinite(v) else int(v) for v in f], dtype="Int64")
    if c == "series_Float64":
        f = _floats(vals)
        return pd.Series([None if np.isnan(v) else float(v) for v in f], dtype="Float64")
    if c == "dask":
        if da is None:
            return _floats(vals)
        return da.from_array(_floats(vals), chunks=max(1, n // 2 or 1))
    if c == "twod":
        f = _floats(vals)
        if n and n % 2 == 0:
            return f.reshape(2, n // 2)
        return f.reshape(1, n)
    if c == "fortran":
        f = _floats(vals)
        if n and n % 2 == 0:
            return np.asfortranarray(f.reshape(2, n // 2))
        return np.asfortranarray(f.reshape(n, 1))
    if c == "strided":
        buf = np.zeros(2 * n + 1)
        buf[::2][:n] = _floats(vals)
        return buf[::2][:n]
    if c == "reversed":
        return _floats(vals)[::-1][::-1][::-1]
    if c == "scalar":
        if n == 0:
            return None
        v = vals[0]
        return v if rng.random() < 0.5 or v is None else np.float64(v)
    if c == "objarr":
        return np.array(list(vals), dtype=object)
    if c == "strings":
        return [("x" if (v is None or rng.random() < 0.1) else repr(v)) for v in vals]
    if c == "nested_list":
        return [list(vals), list(vals)]
    if c == "complex_list":
        return [complex(v, rng.integers(0, 2)) for v in _floats(vals)]
    if c == "complex_arr":
        return _floats(vals) + 1j * rng.integers(0, 2, size=n)
    raise AssertionError(c)


def length(rng):
    return int(rng.integers(0, 9))


def series(rng, n=None, kind="any", container=None):
    n = length(rng) if n is None else n
    return wrap(rng, raw_values(rng, n, kind), container)


def logical_size(x):
    try:
        return int(np.asarray(x.compute() if (da is not None and isinstance(x, da.Array)) else x, dtype=object).size)
    except Exception:  # noqa: BLE001
        return 0


def logical_shape(x):
    try:
        if da is not None and isinstance(x, da.Array):
            return x.shape
        if isinstance(x, (list, tuple)):
            return np.array(x, dtype=object).shape
        return np.shape(x)
    except Exception:  # noqa: BLE001
        return ()


TIME_KINDS = [
    "dt64s", "dt64ns", "epoch_list", "epoch_arr", "dtindex", "tzseries", "series", "datetimes", "strings", "dt64_nat",
    "tzstrings",
]


def times(rng, shape, mismatch=False):
    """Time stamps with the given logical shape in one of many representations."""
    n = int(np.prod(shape)) if len(shape) else 1
    if mismatch:
        n = max(0, n + int(rng.choice([-1, 1, 2])))
        shape = (n,)
    step = int(rng.choice([1, 30, 60, 600, 3600, 86400]))
    style = rng.integers(0, 4)
    if style == 0:
        secs = np.arange(n, dtype=np.int64) * step
    elif style == 1:
        secs = np.cumsum(rng.integers(0, 3, size=n)) * step  # repeated times
    elif style == 2:
        secs = rng.integers(0, 10, size=n) * step  # unordered
    else:
        secs = np.cumsum(rng.integers(1, 4, size=n)) * step
    secs = secs.astype(np.int64) + int(rng.choice([0, 1_500_000_000, 1_577_836_800]))
    k = TIME_KINDS[rng.integers(0, len(TIME_KINDS))]
    if k == "dt64s":
        return secs.astype("datetime64[s]").reshape(shape)
    if k == "dt64ns":
        return secs.astype("datetime64[s]").astype("datetime64[ns]").reshape(shape)
    if k == "dt64_nat":
        t = secs.astype("datetime64[s]").astype("datetime64[ns]")
        if n:
            t[rng.integers(0, n)] = np.datetime64("NaT")
        return t.reshape(shape)
    if k == "epoch_list":
        return [int(s) for s in secs]
    if k == "epoch_arr":
        return secs.astype(rng.choice(["int64", "float64"])).reshape(shape)
    if k == "dtindex":
        return pd.DatetimeIndex(secs.astype("datetime64[s]"))
    if k == "tzseries":
        return pd.Series(pd.DatetimeIndex(secs.astype("datetime64[s]")).tz_localize("UTC"))
    if k == "series":
        return pd.Series(secs.astype("datetime64[s]").astype("datetime64[ns]"))
    if k == "datetimes":
        return [dt.datetime(1970, 1, 1) + dt.timedelta(seconds=int(s)) for s in secs]
    if k == "strings":
        return [str(np.datetime64(int(s), "s")) for s in secs]
    if k == "tzstrings":  # numpy warns (DeprecationWarning) when it parses these
        return [str(np.datetime64(int(s), "s")) + "Z" for s in secs]
    raise AssertionError(k)


def threshold(rng, allow_none=True, positive=True):
    c = rng.integers(0, 12)
    if c == 0 and allow_none:
        return None
    if c == 1:
        return np.nan
    if c == 2:
        return np.float64(rng.choice([0.5, 1, 2.5]))
    if c == 3:
        return int(rng.integers(0, 5))
    if c == 4:
        return 0
    if c == 5:
        return np.int32(rng.integers(0, 4))
    if c == 6 and not positive:
        return -float(rng.integers(0, 4))
    if c == 7 and rng.random() < 0.2:
        return "3"
    return float(np.round(rng.uniform(0, 6), rng.integers(0, 3)))


def span2(rng, allow_none_inside=True):
    c = rng.integers(0, 24)
    a, b = sorted(float(np.round(v, 1)) for v in rng.uniform(-5, 6, size=2))
    if c == 0:
        return (b, a)  # reversed order
    if c == 1:
        return [a, b]
    if c == 2:
        return np.array([a, b])
    if c == 3:
        return (int(a), int(b))
    if c == 4:
        return (a, a)
    if c == 5:
        return (a, b, b + 1)  # wrong length
    if c == 6:
        return (a,)
    if c == 7 and allow_none_inside:
        return (None, b) if rng.random() < 0.5 else (a, None)
    if c == 8:
        return (np.nan, b) if rng.random() < 0.5 else (a, np.nan)
    if c == 9:
        return (-np.inf, np.inf)
    return (a, b)


def shuffled_kwargs(rng, names, values, n_positional=None, sig=None):
    """Pass the first few arguments positionally and the rest as keywords in a random order.

    Only a prefix that lines up with the real signature `sig` can be positional.
    """
    n_pos = rng.integers(0, len(names) + 1) if n_positional is None else n_positional
    if sig is not None:
        aligned = 0
        while aligned < len(names) and aligned < len(sig) and names[aligned] == sig[aligned]:
            aligned += 1
        n_pos = min(n_pos, aligned)
    args = tuple(values[:n_pos])
    rest = list(zip(names[n_pos:], values[n_pos:]))
    order = rng.permutation(len(rest))
    kwargs = {rest[i][0]: rest[i][1] for i in order}
    return args, kwargs


SIG = {
    "gross_range_test": ["inp", "fail_span", "suspect_span"],
    "location_test": ["lon", "lat", "bbox", "range_max"],
    "spike_test": ["inp", "suspect_threshold", "fail_threshold", "method"],
    "rate_of_change_test": ["inp", "tinp", "threshold"],
    "flat_line_test": ["inp", "tinp", "suspect_threshold", "fail_threshold", "tolerance"],
    "attenuated_signal_test": [
        "inp", "tinp", "suspect_threshold", "fail_threshold", "test_period", "min_obs", "min_period", "check_type",
    ],
    "density_inversion_test": ["inp", "zinp", "suspect_threshold", "fail_threshold"],
    "climatology_test": ["config", "inp", "tinp", "zinp"],
    "speed_test": ["lon", "lat", "tinp", "suspect_threshold", "fail_threshold"],
    "pressure_increasing_test": ["inp"],
    "valid_range_test": ["inp", "valid_span", "dtype", "start_inclusive", "end_inclusive"],
}


# ---- one generator per function: returns (args, kwargs) or a callable building them per module
def gen_gross_range(rng):
    inp = series(rng)
    fail = span2(rng)
    r = rng.random()
    if r < 0.3:
        names, vals = ["inp", "fail_span"], [inp, fail]
    else:
        if r < 0.4:
            sus = None
        elif r < 0.92 and len(fail) == 2 and all(isinstance(v, (int, float)) and v == v for v in fail):
            lo, hi = sorted(fail)
            d = (hi - lo) / 4
            sus = (lo + d, hi - d) if rng.random() < 0.8 else (hi - d, lo + d)
        else:
            sus = span2(rng)
        names, vals = ["inp", "fail_span", "suspect_span"], [inp, fail, sus]
    return shuffled_kwargs(rng, names, vals, sig=SIG["gross_range_test"])


def gen_location(rng):
    n = length(rng)
    cont = pick_container(rng) if rng.random() < 0.7 else None
    lon = series(rng, n, "lon", cont)
    lat = series(rng, n if rng.random() < 0.9 else length(rng), "lat", cont if rng.random() < 0.8 else None)
    names, vals = ["lon", "lat"], [lon, lat]
    r = rng.random()
    if r < 0.5:
        c = rng.integers(0, 4) if rng.random() < 0.9 else rng.integers(4, 6)
        bbox = [(-180, -90, 180, 90), (-10, -10, 10, 10), [0, 0, 90, 45], (10, 10, -10, -10), (-10, -10, 10), None][c]
        names.append("bbox")
        vals.append(bbox)
        if rng.random() < 0.6:
            names.append("range_max")
            vals.append([None, 0, 1.0, 1e5, 5e6, 1e9, np.nan][rng.integers(0, 7)])
    elif r < 0.7:
        names.append("range_max")
        vals.append([None, 0, 1e5, 5e6][rng.integers(0, 4)])
        return shuffled_kwargs(rng, names, vals, n_positional=int(rng.integers(0, 3)), sig=SIG["location_test"])
    return shuffled_kwargs(rng, names, vals, sig=SIG["location_test"])


def gen_spike(rng):
    inp = series(rng)
    names, vals = ["inp"], [inp]
    if rng.random() < 0.9:
        names.append("suspect_threshold")
        vals.append(threshold(rng))
    if rng.random() < 0.9:
        names.append("fail_threshold")
        vals.append(threshold(rng))
    if rng.random() < 0.7:
        names.append("method")
        vals.append(["average", "differential", "differential", "median", None][rng.integers(0, 3 if rng.random() < 0.92 else 5)])
    return shuffled_kwargs(rng, names, vals, sig=SIG["spike_test"])


def gen_rate_of_change(rng):
    inp = series(rng)
    tinp = times(rng, logical_shape(inp), mismatch=rng.random() < 0.08)
    thr = threshold(rng, allow_none=rng.random() < 0.3)
    return shuffled_kwargs(rng, ["inp", "tinp", "threshold"], [inp, tinp, thr], sig=SIG["rate_of_change_test"])


def gen_flat_line(rng):
    inp = series(rng)
    tinp = times(rng, logical_shape(inp), mismatch=rng.random() < 0.08)
    names = ["inp", "tinp", "suspect_threshold", "fail_threshold"]
    c = rng.integers(0, 6)
    base = int(rng.choice([1, 30, 60, 600, 3600]))
    if c == 0:
        st, ft = base, 2 * base
    elif c == 1:
        st, ft = 2 * base, 3 * base
    elif c == 2:
        st, ft = 3 * base, base  # odd order
    elif c == 3:
        st, ft = float(base) * 1.5, "120" if rng.random() < 0.3 else base * 4
    elif c == 4:
        st, ft = 0, base
    else:
        st, ft = threshold(rng), threshold(rng)
    vals = [inp, tinp, st, ft]
    if rng.random() < 0.7:
        names.append("tolerance")
        vals.append([0, 0.5, 1, 2.0, np.nan, -1, 10][rng.integers(0, 7)])
    return shuffled_kwargs(rng, names, vals, sig=SIG["flat_line_test"])


def gen_attenuated(rng):
    inp = series(rng)
    tinp = times(rng, logical_shape(inp), mismatch=rng.random() < 0.08)
    names = ["inp", "tinp", "suspect_threshold", "fail_threshold"]
    st, ft = threshold(rng, allow_none=rng.random() < 0.1), threshold(rng, allow_none=rng.random() < 0.1)
    if rng.random() < 0.3 and isinstance(st, (int, float)) and isinstance(ft, (int, float)):
        st, ft = max(st, ft), min(st, ft)
    vals = [inp, tinp, st, ft]
    if rng.random() < 0.6:
        names.append("test_period")
        vals.append([None, 0, 1, 60, 120, 3600, 86400 * 2, 90.5][rng.integers(0, 8)])
    if rng.random() < 0.4:
        names.append("min_obs")
        vals.append([None, 1, 2, 3, 10][rng.integers(0, 5)])
    if rng.random() < 0.4:
        names.append("min_period")
        vals.append([None, 1, 60, 120, 7200][rng.integers(0, 5)])
    if rng.random() < 0.8:
        names.append("check_type")
        vals.append(["std", "range", "range", "ptp"][rng.integers(0, 3 if rng.random() < 0.94 else 4)])
    return shuffled_kwargs(rng, names, vals, sig=SIG["attenuated_signal_test"])


def gen_density(rng):
    n = length(rng)
    cont = pick_container(rng) if rng.random() < 0.7 else None
    inp = series(rng, n, container=cont)
    zinp = series(rng, n if rng.random() < 0.9 else length(rng), container=cont if rng.random() < 0.8 else None)
    if rng.random() < 0.4 and isinstance(zinp, np.ndarray) and not isinstance(zinp, np.ma.MaskedArray) and zinp.ndim == 1 and zinp.dtype != object:
        zinp = np.sort(zinp)
    names, vals = ["inp", "zinp"], [inp, zinp]
    if rng.random() < 0.9:
        names.append("suspect_threshold")
        vals.append(threshold(rng, positive=False))
    if rng.random() < 0.9:
        names.append("fail_threshold")
        vals.append(threshold(rng, positive=False))
    return shuffled_kwargs(rng, names, vals, sig=SIG["density_inversion_test"])


def gen_climatology(rng):
    n = length(rng)
    cont = pick_container(rng) if rng.random() < 0.7 else None
    inp = series(rng, n, container=cont)
    tinp = times(rng, logical_shape(inp), mismatch=rng.random() < 0.06)
    r = rng.random()
    if r < 0.5:
        zinp = series(rng, n, container=cont if rng.random() < 0.8 else None)
    elif r < 0.6:
        zinp = series(rng, length(rng))
    elif r < 0.8:
        zinp = [None] * n
    else:
        zinp = np.full(n, np.nan)
    members = []
    for _ in range(int(rng.integers(0, 4))):
        m = {}
        period = [None, None, "month", "week", "weekofyear", "dayofyear", "dayofweek", "quarter", "year", "bogus"][
            rng.integers(0, 9 if rng.random() < 0.97 else 10)
        ]
        if period is None:
            lo = np.datetime64(int(rng.choice([0, 1_500_000_000, 1_577_836_800])) - 10, "s")
            hi = lo + np.timedelta64(int(rng.choice([20, 3600, 86400 * 400])), "s")
            m["tspan"] = [(lo, hi), (hi, lo), (str(lo), str(hi)), (pd.Timestamp(lo), pd.Timestamp(hi))][rng.integers(0, 4)]
        else:
            a, b = sorted(int(v) for v in rng.integers(0, 54, size=2))
            m["tspan"] = (a, b) if rng.random() < 0.8 else (b, a)
            m["period"] = period
        m["vspan"] = span2(rng, allow_none_inside=False)
        if rng.random() < 0.5:
            m["fspan"] = span2(rng, allow_none_inside=False) if rng.random() < 0.9 else None
        if rng.random() < 0.5:
            m["zspan"] = [(0, 10), (10, 0), (-5, 5), (0, 2), None, (1.5, 3.5)][rng.integers(0, 6)]
        members.append(dict((k, m[k]) for k in rng.permutation(list(m))))
    as_object = rng.random() < 0.35
    names, vals = ["config", "inp", "tinp", "zinp"], [members, inp, tinp, zinp]
    args, kwargs = shuffled_kwargs(rng, names, vals, sig=SIG["climatology_test"])

    def build(mods):
        if not as_object:
            return args, kwargs
        try:
            cfg = mods["qartod"].ClimatologyConfig.convert(copy.deepcopy(members))
        except BaseException:  # noqa: BLE001
            return args, kwargs
        if args:
            return (cfg, *args[1:]), kwargs
        return args, {**kwargs, "config": cfg}

    return build


def gen_speed(rng):
    n = length(rng)
    cont = pick_container(rng) if rng.random() < 0.7 else None
    lon = series(rng, n, "lon", cont)
    lat = series(rng, n if rng.random() < 0.92 else length(rng), "lat", cont if rng.random() < 0.8 else None)
    tinp = times(rng, logical_shape(lon), mismatch=rng.random() < 0.08)
    st = threshold(rng, allow_none=rng.random() < 0.2)
    ft = threshold(rng, allow_none=rng.random() < 0.2)
    if rng.random() < 0.5:
        st, ft = rng.choice([0.1, 1, 100, 1e4, 1e6]), rng.choice([0.1, 1, 100, 1e4, 1e6])
    return shuffled_kwargs(rng, ["lon", "lat", "tinp", "suspect_threshold", "fail_threshold"], [lon, lat, tinp, st, ft], sig=SIG["speed_test"])


def gen_pressure(rng):
    n = length(rng)
    style = rng.integers(0, 4)
    vals = raw_values(rng, n)
    if style == 0:
        vals = sorted((v for v in vals if v is not None and v == v), key=float)
    elif style == 1:
        vals = sorted((v for v in vals if v is not None and v == v), key=float, reverse=True)
    inp = wrap(rng, vals)
    return ((inp,), {}) if rng.random() < 0.7 else ((), {"inp": inp})


def gen_valid_range(rng):
    r = rng.random()
    names = ["inp", "valid_span"]
    if r < 0.6:
        inp = series(rng)
        vspan = span2(rng)
        dtypes = [None, None, None, np.float64, "float32", np.int64, "uint8", np.floating, float, int, np.float64, "int16"]
        if rng.random() < 0.1:
            dtypes = [object, str, "datetime64[ns]", bool, "complex128"]
    else:
        n = length(rng)
        inp = times(rng, (n,))
        lo = np.datetime64(int(rng.choice([0, 1_500_000_000, 1_577_836_800])) + int(rng.integers(-5, 50)), "s")
        hi = lo + np.timedelta64(int(rng.choice([1, 60, 3600, 86400 * 3])), "s")
        c = rng.integers(0, 6)
        vspan = [(lo, hi), (hi, lo), [str(lo), str(hi)], (pd.Timestamp(lo), pd.Timestamp(hi)), (lo, None), (np.datetime64("NaT"), hi)][c]
        dtypes = [None, None, None, "datetime64[ns]", "datetime64[s]", "datetime64[ns]", np.float64 if rng.random() < 0.3 else None]
    vals = [inp, vspan]
    if rng.random() < 0.6:
        names.append("dtype")
        vals.append(dtypes[rng.integers(0, len(dtypes))])
    if rng.random() < 0.5:
        names.append("start_inclusive")
        vals.append([True, False, 1, None][rng.integers(0, 4)])
    if rng.random() < 0.5:
        names.append("end_inclusive")
        vals.append([True, False, 0, np.True_][rng.integers(0, 4)])
    return shuffled_kwargs(rng, names, vals, sig=SIG["valid_range_test"])


TARGETS = [
    ("qartod", "gross_range_test", gen_gross_range),
    ("qartod", "location_test", gen_location),
    ("qartod", "spike_test", gen_spike),
    ("qartod", "rate_of_change_test", gen_rate_of_change),
    ("qartod", "flat_line_test", gen_flat_line),
    ("qartod", "attenuated_signal_test", gen_attenuated),
    ("qartod", "density_inversion_test", gen_density),
    ("qartod", "climatology_test", gen_climatology),
    ("argo", "speed_test", gen_speed),
    ("argo", "pressure_increasing_test", gen_pressure),
    ("axds", "valid_range_test", gen_valid_range),
]


def short(x, limit=300):
    s = repr(x)
    return s if len(s) <= limit else s[:limit] + "..."


def main(argv=None):
    ap = argparse.ArgumentParser()
    ap.add_argument("-n", type=int, default=3200, help="generated cases per function")
    ap.add_argument("-s", "--seed", type=int, default=20261003)
    ap.add_argument("-f", "--function", action="append", help="only these functions")
    ap.add_argument("--max-report", type=int, default=5)
    ap.add_argument("--recheck", action="store_true", help="re-run a mismatching case to see whether it is reproducible")
    ns = ap.parse_args(argv)

    total_bad = 0
    for i, (sub, name, gen) in enumerate(TARGETS):
        if ns.function and name not in ns.function:
            continue
        rng = np.random.default_rng([ns.seed, i])
        f_orig = getattr(ORIG[sub], name)
        f_new = getattr(NEW[sub], name)
        assert f_orig is not f_new
        assert f_orig.__module__ != "" and f_orig.__globals__ is not f_new.__globals__
        n_ok = n_exc = n_bad = 0
        exc_types = {}
        for case in range(ns.n):
            g = gen(rng)
            if callable(g):
                (a_o, k_o), (a_n, k_n) = g(ORIG), g(NEW)
            else:
                a_o, k_o = a_n, k_n = g
            r_o = call(f_orig, a_o, k_o)
            r_n = call(f_new, a_n, k_n)
            if r_o[0][0] == "ok":
                n_ok += 1
            else:
                n_exc += 1
                exc_types[r_o[0][1]] = exc_types.get(r_o[0][1], 0) + 1
            if r_o != r_n or r_o[3] or r_n[3]:
                n_bad += 1
                if ns.recheck:
                    again = [(call(f_orig, a_o, k_o), call(f_new, a_n, k_n)) for _ in range(3)]
                    stable = all(o == r_o and nw == r_n for o, nw in again)
                    print(f"RECHECK {sub}.{name} case {case}: mismatch is {'reproducible' if stable else 'TRANSIENT'}")
                    if not stable:
                        import pickle
                        with open(f"/tmp/R8_transient_{name}_{case}.pkl", "wb") as fh:
                            try:
                                pickle.dump((a_n, k_n, r_o, r_n, again), fh)
                            except Exception as e:  # noqa: BLE001
                                print("   (not picklable)", e)
                        print("   args  :", short(a_n, 2000), short(k_n, 2000))
                        print("   first :", short(r_o, 600), "\n          ", short(r_n, 600))
                        for o, nw in again:
                            print("   again :", short(o[0], 300), "\n          ", short(nw[0], 300))
                if n_bad <= ns.max_report:
                    print(f"MISMATCH {sub}.{name} case {case}:")
                    print("   args  :", short(a_n), short(k_n))
                    for label, o, nw in zip(("outcome", "warnings", "logs", "mutated"), r_o, r_n):
                        if o != nw or (label == "mutated" and (o or nw)):
                            print(f"   {label}: original={short(o)}")
                            print(f"   {' ' * len(label)}  refactor={short(nw)}")
        status = "OK " if n_bad == 0 else "BAD"
        print(
            f"{status} {sub}.{name}: {ns.n} cases, {n_ok} returned, {n_exc} raised "
            f"({', '.join(f'{k}:{v}' for k, v in sorted(exc_types.items()))}), {n_bad} mismatches",
            flush=True,
        )
        total_bad += n_bad
    if total_bad:
        print(f"FAILED: {total_bad} mismatching cases")
        return 1
    print("all equivalent")
    return 0


if __name__ == "__main__":
    sys.exit(main())
