#!/usr/bin/env python
"""Differential check: refactored functions (this worktree) against the originals (/repo).

Run as:  PYTHONPATH=<worktree> /venv/bin/python equiv.py [N]

The original package is loaded from /repo under the top-level name ``ioos_qc_orig``
(importlib.util.spec_from_file_location + submodule_search_locations).  While it is being
loaded the name ``ioos_qc`` is pointed at it as well, so that the absolute imports inside the
original modules (``from ioos_qc.utils import ...``) resolve to the ORIGINAL code; afterwards
every ``ioos_qc*`` entry is dropped from sys.modules and the refactored package is imported
from the worktree.

/repo is shared: if one of its three modules is, at the moment of the run, not byte-identical to
this worktree's git HEAD (another job is patching it), a pristine copy of HEAD's package is used
as the original instead and a NOTE is printed (EQUIV_ORIG=<dir> forces a particular original).

Every target is run on N (default 3000, minimum accepted 3000) generated inputs.  Results are
compared including type, dtype, shape, mask, fill_value, raw data and NaN positions; exceptions
are compared by type (and message); log records are compared; the arguments after the call are
compared too (no new mutation).  Exit status 0 means no difference was found.
"""

import copy
import importlib
import importlib.util
import io
import json
import logging
import os
import random
import sys
import tempfile
import traceback
import warnings
from collections import OrderedDict, defaultdict
from pathlib import Path

import numpy as np
import pandas as pd
import xarray as xr

warnings.simplefilter("ignore")

HERE = os.path.dirname(os.path.abspath(__file__))
ORIG_ROOT = os.environ.get("EQUIV_ORIG", "/repo/ioos_qc")
_PRISTINE_TMP = None


def _guard_original_root():
    """/repo is shared with other jobs which may patch it while we run.  When one of the three
    modules in /repo is (at this moment) not byte-identical to what this worktree's git HEAD has,
    /repo is not "the original" right now: use a pristine copy of HEAD's package instead (it is
    still loaded under the name ioos_qc_orig in exactly the same way)."""
    global ORIG_ROOT, _PRISTINE_TMP
    import subprocess

    def head(path):
        return subprocess.run(["git", "-C", HERE, "show", f"HEAD:{path}"], capture_output=True, check=True).stdout

    try:
        stale = []
        for name in ("utils", "qartod", "results"):
            with open(os.path.join(ORIG_ROOT, f"{name}.py"), "rb") as f:
                if f.read() != head(f"ioos_qc/{name}.py"):
                    stale.append(name)
        if not stale:
            return
        _PRISTINE_TMP = tempfile.mkdtemp(prefix="equiv_orig_")
        root = os.path.join(_PRISTINE_TMP, "ioos_qc")
        os.makedirs(root)
        listing = subprocess.run(
            ["git", "-C", HERE, "ls-tree", "--name-only", "HEAD", "ioos_qc/"], capture_output=True, check=True, text=True
        ).stdout.split()
        for path in listing:
            if path.endswith(".py"):
                with open(os.path.join(root, os.path.basename(path)), "wb") as f:
                    f.write(head(path))
        print(f"NOTE: {ORIG_ROOT} currently differs from the original in {stale} (someone is patching it);")
        print(f"      comparing against a pristine copy of git HEAD's package in {root} instead")
        ORIG_ROOT = root
    except (OSError, subprocess.CalledProcessError) as e:  # no git: nothing to guard with
        print(f"NOTE: could not check {ORIG_ROOT} against git HEAD ({e}); using it as it is")

N_CASES = int(sys.argv[1]) if len(sys.argv) > 1 else 3000
assert N_CASES >= 3000 or os.environ.get("EQUIV_ALLOW_SMALL"), "at least 3000 inputs per function"


# --------------------------------------------------------------------------------------
# Loading both versions
# --------------------------------------------------------------------------------------
def _load_original():
    for k in [k for k in sys.modules if k == "ioos_qc" or k.startswith("ioos_qc.")]:
        del sys.modules[k]
    spec = importlib.util.spec_from_file_location(
        "ioos_qc_orig",
        os.path.join(ORIG_ROOT, "__init__.py"),
        submodule_search_locations=[ORIG_ROOT],
    )
    pkg = importlib.util.module_from_spec(spec)
    sys.modules["ioos_qc_orig"] = pkg
    sys.modules["ioos_qc"] = pkg  # absolute imports inside the originals -> originals
    spec.loader.exec_module(pkg)
    mods = {name: importlib.import_module(f"ioos_qc_orig.{name}") for name in ("utils", "qartod", "results")}
    # the helper copies which were imported as ioos_qc.<x> must be originals too
    for k, m in list(sys.modules.items()):
        if k.startswith("ioos_qc.") and m is not None:
            assert m.__file__.startswith(ORIG_ROOT), (k, m.__file__)
    for k in [k for k in sys.modules if k == "ioos_qc" or k.startswith("ioos_qc.")]:
        del sys.modules[k]
    return mods


_guard_original_root()
ORIG = _load_original()
sys.path.insert(0, HERE)
importlib.invalidate_caches()
NEW = {name: importlib.import_module(f"ioos_qc.{name}") for name in ("utils", "qartod", "results")}
for _name in ORIG:
    assert ORIG[_name].__file__.startswith(ORIG_ROOT + os.sep), ORIG[_name].__file__
    assert NEW[_name].__file__.startswith(HERE + os.sep), NEW[_name].__file__
    assert ORIG[_name] is not NEW[_name]
# the original qartod must use the original helpers
assert ORIG["qartod"].mapdates.__code__.co_filename.startswith(ORIG_ROOT)
assert NEW["qartod"].mapdates.__code__.co_filename.startswith(HERE)


# --------------------------------------------------------------------------------------
# Log capture
# --------------------------------------------------------------------------------------
class _Capture(logging.Handler):
    def __init__(self):
        super().__init__(level=logging.DEBUG)
        self.records = []

    def emit(self, record):
        name = record.name.replace("ioos_qc_orig", "ioos_qc")
        self.records.append((name, record.levelname, record.getMessage()))


CAPTURE = _Capture()
for _n in ("ioos_qc", "ioos_qc_orig"):
    _lg = logging.getLogger(_n)
    _lg.addHandler(CAPTURE)
    _lg.setLevel(logging.DEBUG)
    _lg.propagate = False


# --------------------------------------------------------------------------------------
# Deep comparison
# --------------------------------------------------------------------------------------
class Raised:
    def __init__(self, exc):
        self.exc = exc
        self.type = type(exc)
        self.msg = str(exc).replace("ioos_qc_orig", "ioos_qc")

    def __repr__(self):
        return f"Raised({self.type.__name__}: {self.msg[:200]})"


def _tname(t):
    return (t.__module__.replace("ioos_qc_orig", "ioos_qc"), t.__qualname__)


def _scalar_eq(a, b):
    try:
        if a != a and b != b:  # NaN / NaT
            return True
    except Exception:
        pass
    try:
        return bool(a == b)
    except Exception:
        return a is b


def _ndarray_diff(a, b, path):
    if a.dtype != b.dtype:
        return f"{path}: dtype {a.dtype} != {b.dtype}"
    if a.shape != b.shape:
        return f"{path}: shape {a.shape} != {b.shape}"
    if a.dtype == object:
        for i, (x, y) in enumerate(zip(a.ravel().tolist(), b.ravel().tolist())):
            d = diff(x, y, f"{path}[{i}]")
            if d:
                return d
        return None
    if a.dtype.kind in "fc":
        ok = np.array_equal(a, b, equal_nan=True)
    elif a.dtype.kind in "mM":
        ok = np.array_equal(a.astype("i8"), b.astype("i8"))
    else:
        ok = np.array_equal(a, b)
    if not ok:
        return f"{path}: values {a!r} != {b!r}"
    if a.flags["F_CONTIGUOUS"] != b.flags["F_CONTIGUOUS"] or a.flags["C_CONTIGUOUS"] != b.flags["C_CONTIGUOUS"]:
        return f"{path}: memory layout differs"
    return None


def diff(a, b, path="result", raw=True):
    """None when a and b are indistinguishable, else a description of the first difference."""
    if isinstance(a, Raised) or isinstance(b, Raised):
        if not (isinstance(a, Raised) and isinstance(b, Raised)):
            return f"{path}: {a!r} vs {b!r}"
        if a.type is not b.type:
            return f"{path}: exception type {a!r} vs {b!r}"
        if a.msg != b.msg:
            return f"{path}: exception message {a!r} vs {b!r}"
        return None
    if _tname(type(a)) != _tname(type(b)):
        return f"{path}: type {type(a)} != {type(b)}"
    if a is np.ma.masked or b is np.ma.masked:
        return None if a is b else f"{path}: masked constant vs {b!r}"
    if isinstance(a, np.ma.MaskedArray):
        if (a.mask is np.ma.nomask) != (b.mask is np.ma.nomask):
            return f"{path}: nomask-ness differs ({a.mask!r} vs {b.mask!r})"
        d = _ndarray_diff(np.ma.getmaskarray(a), np.ma.getmaskarray(b), path + ".mask")
        if d:
            return d
        if a.dtype != b.dtype:
            return f"{path}: dtype {a.dtype} != {b.dtype}"
        if raw:
            d = _ndarray_diff(np.asarray(a.data), np.asarray(b.data), path + ".data")
        else:
            if a.dtype.kind in "mMO":
                fa = np.where(np.ma.getmaskarray(a), np.zeros((), a.dtype), a.data)
                fb = np.where(np.ma.getmaskarray(b), np.zeros((), b.dtype), b.data)
            else:
                fa, fb = a.filled(0), b.filled(0)
            d = _ndarray_diff(np.asarray(fa), np.asarray(fb), path + ".filled")
        if d:
            return d
        if not _scalar_eq(a.fill_value, b.fill_value) or type(a.fill_value) is not type(b.fill_value):
            return f"{path}: fill_value {a.fill_value!r} != {b.fill_value!r}"
        if a.hardmask != b.hardmask:
            return f"{path}: hardmask differs"
        return None
    if isinstance(a, np.ndarray):
        return _ndarray_diff(a, b, path)
    if isinstance(a, (pd.Index, pd.Series)):
        if a.dtype != b.dtype or not a.equals(b):
            return f"{path}: pandas {a!r} != {b!r}"
        return None
    if isinstance(a, xr.Dataset):
        return None if a.identical(b) else f"{path}: datasets differ"
    if isinstance(a, defaultdict):
        fa, fb = a.default_factory, b.default_factory
        if (fa is None) != (fb is None):
            return f"{path}: default_factory differs"
        if fa is not None:
            d = diff(fa(), fb(), path + ".default_factory()", raw)
            if d:
                return d
    if isinstance(a, dict):
        if list(a.keys()) != list(b.keys()):
            return f"{path}: keys {list(a.keys())!r} != {list(b.keys())!r}"
        for k in a:
            d = diff(a[k], b[k], f"{path}[{k!r}]", raw)
            if d:
                return d
        return None
    if isinstance(a, (list, tuple)):
        if len(a) != len(b):
            return f"{path}: length {len(a)} != {len(b)}"
        for i, (x, y) in enumerate(zip(a, b)):
            d = diff(x, y, f"{path}[{i}]", raw)
            if d:
                return d
        return None
    if type(a).__name__ == "CollectedResult":  # the dataclass (the NamedTuples are tuples, see above)
        if list(a.__dict__) != list(b.__dict__):
            return f"{path}: attributes differ"
        for f in a.__dict__:
            d = diff(getattr(a, f), getattr(b, f), f"{path}.{f}", raw)
            if d:
                return d
        return None
    if type(a).__name__.endswith("iterator"):
        return None  # one-shot iterators handed in as arguments
    if callable(a) and callable(b):
        return None if a is b else f"{path}: different callables"
    if isinstance(a, io.StringIO):
        if a.closed != b.closed:
            return f"{path}: closed differs"
        if not a.closed and (a.getvalue() != b.getvalue() or a.tell() != b.tell()):
            return f"{path}: StringIO state differs"
        return None
    if not _scalar_eq(a, b):
        return f"{path}: {a!r} != {b!r}"
    return None


# --------------------------------------------------------------------------------------
# Runner
# --------------------------------------------------------------------------------------
FAILURES = []
COUNTS = OrderedDict()
OUTCOMES = defaultdict(lambda: defaultdict(int))
SEEN = defaultdict(set)  # flag values / log activity observed per target (coverage hint only)


def call(fn, args, kwargs):
    CAPTURE.records = []
    with warnings.catch_warnings():
        warnings.simplefilter("ignore")
        old = np.geterr()
        try:
            out = fn(*args, **kwargs)
        except (KeyboardInterrupt, SystemExit):
            raise
        except BaseException as e:  # noqa: BLE001
            out = Raised(e)
        new = np.geterr()
        if new != old:
            np.seterr(**old)
            out = ("np.errstate leaked", new, out)
    return out, list(CAPTURE.records)


def check(target, fo, fn, args_o, kwargs_o, args_n, kwargs_n, raw=True, post=None):
    """Run the original on (args_o, kwargs_o), the refactored on (args_n, kwargs_n) and compare."""
    COUNTS[target] = COUNTS.get(target, 0) + 1
    ro, lo = call(fo, args_o, kwargs_o)
    rn, ln = call(fn, args_n, kwargs_n)
    if post is not None and not isinstance(ro, Raised) and not isinstance(rn, Raised):
        ro, rn = post(ro, args_o, kwargs_o), post(rn, args_n, kwargs_n)
    OUTCOMES[target][ro.type.__name__ if isinstance(ro, Raised) else "ok"] += 1
    if isinstance(ro, np.ndarray) and ro.dtype.kind in "iu":
        SEEN[target].update(np.unique(np.asarray(ro)).tolist())
    if lo:
        SEEN[target].add(f"{len(lo)} log record(s)")
    try:
        d = diff(ro, rn, "result", raw)
        if d is None and lo != ln:
            d = f"log records {lo!r} != {ln!r}"
        if d is None:
            d = diff(args_o, args_n, "args-after-call", raw)
        if d is None:
            d = diff(kwargs_o, kwargs_n, "kwargs-after-call", raw)
    except Exception:  # pragma: no cover
        d = "comparison crashed: " + traceback.format_exc()
    if d is not None:
        FAILURES.append((target, d))
        if len([1 for t, _ in FAILURES if t == target]) <= 3:
            print(f"MISMATCH in {target}: {d}")
            print(f"    args  : {args_o!r}"[:1500])
            print(f"    kwargs: {kwargs_o!r}"[:1500])
            print(f"    orig  : {ro!r}"[:800])
            print(f"    new   : {rn!r}"[:800])


def both(target, name_path, args, kwargs, raw=True):
    """Same (deep-copied) arguments for both implementations looked up by attribute path."""
    mod, *attrs = name_path
    fo, fn = ORIG[mod], NEW[mod]
    for a in attrs:
        fo, fn = getattr(fo, a), getattr(fn, a)
    a1, k1 = copy.deepcopy((args, kwargs))
    a2, k2 = copy.deepcopy((args, kwargs))
    check(target, fo, fn, a1, k1, a2, k2, raw)


# --------------------------------------------------------------------------------------
# Generators
# --------------------------------------------------------------------------------------
NAN = float("nan")
VALUE_POOL = [0, 0, 1, 1, 1, 2, 2, 3, 5, -1, -2, 0.5, 1.5, 2.5, 1.0000001, 10, 100, -7.25, 1e-9, 3, 3, 3]
ODD_POOL = [NAN, NAN, None, None, np.inf, -np.inf, np.nan]


def gen_values(rng, n, p_odd=None):
    if p_odd is None:
        p_odd = rng.choice([0, 0, 0.1, 0.25, 0.5, 0.9])
    mode = rng.random()
    out = []
    cur = rng.choice(VALUE_POOL)
    for _ in range(n):
        if rng.random() < p_odd:
            out.append(rng.choice(ODD_POOL))
            continue
        if mode < 0.35:  # runs of repeated values (flat lines)
            if rng.random() < 0.35:
                cur = rng.choice(VALUE_POOL)
            out.append(cur)
        elif mode < 0.6:  # monotone-ish
            cur = cur + rng.choice([-1, 0, 0.05, 0.1, 0.5, 1, 1, 2])
            out.append(cur)
        else:
            out.append(rng.choice(VALUE_POOL))
    return out


def wrap_series(rng, vals, allow_2d=True):
    """Put a python list of numbers / None / NaN into one of many containers."""
    kind = rng.random()
    has_none = any(v is None for v in vals)
    n = len(vals)
    if kind < 0.3:
        return list(vals)
    if kind < 0.4:
        return tuple(vals)
    if kind < 0.6:
        return np.array(vals, dtype=object) if has_none else np.array(vals, dtype=np.float64)
    if kind < 0.7:
        if has_none or any(isinstance(v, float) and (v != v or v in (np.inf, -np.inf)) or v != int(v) for v in vals if v is not None):
            return np.array([NAN if v is None else v for v in vals], dtype=np.float32)
        return np.array(vals, dtype=rng.choice([np.int64, np.int32, np.int8, np.uint8, np.float32]))
    if kind < 0.85:
        data = np.array([NAN if v is None else v for v in vals], dtype=np.float64)
        mask = np.array([rng.random() < 0.3 for _ in vals], dtype=bool)
        if rng.random() < 0.3:
            return np.ma.MaskedArray(data)  # nomask
        return np.ma.MaskedArray(data, mask=mask)
    if kind < 0.92:
        return pd.Series([NAN if v is None else v for v in vals], dtype="float64")
    if allow_2d and n in (4, 6, 8) and rng.random() < 0.8:
        arr = np.array([NAN if v is None else v for v in vals], dtype=np.float64)
        shape = rng.choice([(2, n // 2), (n // 2, 2), (1, n), (n, 1)])
        arr = arr.reshape(shape)
        if rng.random() < 0.3:
            arr = np.asfortranarray(arr)
        return arr
    if n == 1 and rng.random() < 0.5:
        return vals[0]  # a bare scalar
    return np.array([NAN if v is None else v for v in vals], dtype=np.float64)


def gen_times(rng, n, like=None):
    """Time axis of n points in one of the accepted representations."""
    start = rng.choice([0, 1_500_000_000, 1_600_000_123, 86_400 * 365])
    step_kind = rng.random()
    secs = []
    t = start
    base = rng.choice([1, 1, 2, 5, 10, 60, 3600, 0.5, 0])
    for _ in range(n):
        secs.append(t)
        if step_kind < 0.6:
            t = t + base
        elif step_kind < 0.85:
            t = t + rng.choice([0, 1, 1, 2, 3, 10, 60, 0.5])
        else:
            t = t + rng.choice([-5, 0, 1, 2, 30])
    kind = rng.random()
    if kind < 0.35:
        arr = np.array([np.datetime64(int(s * 1000), "ms") for s in secs], dtype="datetime64[ms]")
        if rng.random() < 0.5:
            arr = arr.astype("datetime64[ns]")
        elif rng.random() < 0.5:
            arr = arr.astype("datetime64[s]")
        if like is not None and getattr(like, "ndim", 1) == 2 and arr.size == like.size and rng.random() < 0.8:
            arr = arr.reshape(like.shape)
        return arr
    if kind < 0.5:
        return [int(s) for s in secs] if rng.random() < 0.5 else list(secs)
    if kind < 0.6:
        return np.array(secs, dtype=np.float64 if rng.random() < 0.5 else np.int64)
    if kind < 0.72:
        return pd.DatetimeIndex(pd.to_datetime(np.array(secs, dtype=np.float64), unit="s"))
    if kind < 0.8:
        return pd.Series(pd.to_datetime(np.array(secs, dtype=np.float64), unit="s"))
    if kind < 0.87:
        idx = pd.DatetimeIndex(pd.to_datetime(np.array(secs, dtype=np.float64), unit="s")).tz_localize("UTC")
        return idx if rng.random() < 0.5 else pd.Series(idx)
    if kind < 0.93:
        return [pd.Timestamp(s, unit="s") for s in secs]
    if kind < 0.97:
        return [str(np.datetime64(int(s), "s")) for s in secs]
    return None if rng.random() < 0.5 else "not a time axis"


def shuffled_kwargs(rng, names, values, n_positional=None):
    """Split a full argument list into positionals + keyword arguments in a random order."""
    if n_positional is None:
        n_positional = rng.randint(0, len(names))
    args = list(values[:n_positional])
    rest = list(zip(names[n_positional:], values[n_positional:]))
    rng.shuffle(rest)
    return args, dict(rest)


def mismatch_len(rng, n):
    return rng.choice([m for m in range(0, 9) if m != n])


# ---- qartod: flat_line_test ------------------------------------------------------------
def run_flat_line(rng):
    n = rng.choice([0, 1, 2, 3, 3, 4, 4, 5, 5, 6, 6, 7, 7, 8, 8])
    inp = wrap_series(rng, gen_values(rng, n))
    nt = n if rng.random() < 0.93 else mismatch_len(rng, n)
    tinp = gen_times(rng, nt, like=inp if isinstance(inp, np.ndarray) else None)
    thr_pool = [0, 1, 2, 3, 4, 5, 6, 8, 10, 20, 60, 120, 3600, 1.5, 2.9, "3", -1, -2, -10, 1e6, None, NAN, np.int64(2), np.float64(3.0), True]
    tol_pool = [0, 0, 0.01, 0.1, 0.5, 1, 1, 2, 5, 1e-7, NAN, -1, None, np.float32(0.5), np.inf]
    values = [inp, tinp, rng.choice(thr_pool), rng.choice(thr_pool), rng.choice(tol_pool)]
    names = ["inp", "tinp", "suspect_threshold", "fail_threshold", "tolerance"]
    if rng.random() < 0.25:  # default tolerance
        values, names = values[:4], names[:4]
    args, kwargs = shuffled_kwargs(rng, names, values)
    both("flat_line_test", ("qartod", "flat_line_test"), args, kwargs)


# ---- qartod: spike_test ----------------------------------------------------------------
def run_spike(rng):
    n = rng.randint(0, 8)
    inp = wrap_series(rng, gen_values(rng, n))
    thr_pool = [None, None, 0, 0.1, 0.25, 0.5, 1, 1.5, 2, 3, 5, 50, -1, NAN, np.inf, np.float32(0.5), np.int8(1), "1"]
    method = rng.choice(["average"] * 5 + ["differential"] * 5 + ["AVERAGE", None, "", 3, "median"])
    values = [inp, rng.choice(thr_pool), rng.choice(thr_pool), method]
    names = ["inp", "suspect_threshold", "fail_threshold", "method"]
    drop = rng.choice([0, 0, 1, 2, 3])  # rely on defaults for the tail
    values, names = values[: 4 - drop], names[: 4 - drop]
    args, kwargs = shuffled_kwargs(rng, names, values)
    if rng.random() < 0.15 and "method" not in kwargs and len(args) < 4:
        kwargs["method"] = method
    both("spike_test", ("qartod", "spike_test"), args, kwargs)


# ---- qartod: density_inversion_test ----------------------------------------------------
def run_density(rng):
    n = rng.randint(0, 8)
    inp = wrap_series(rng, gen_values(rng, n))
    if rng.random() < 0.9:
        zvals = gen_values(rng, n, p_odd=rng.choice([0, 0, 0.1, 0.3]))
        if rng.random() < 0.5:
            zvals = sorted([v for v in zvals if v is not None and v == v], reverse=rng.random() < 0.3)
            zvals = zvals + [rng.choice([NAN, None, 4])] * (n - len(zvals))
        zinp = wrap_series(rng, zvals)
        if isinstance(inp, np.ndarray) and inp.ndim == 2 and rng.random() < 0.8:
            zinp = np.array([NAN if v is None else v for v in zvals], dtype=np.float64).reshape(inp.shape)
    else:
        zinp = wrap_series(rng, gen_values(rng, mismatch_len(rng, n)))
    thr_pool = [None, None, 0, 0.0, -0.01, -0.5, -1, -2, 0.5, 1, 3, NAN, -np.inf, np.inf, np.float32(-0.5), "x"]
    values = [inp, zinp, rng.choice(thr_pool), rng.choice(thr_pool)]
    names = ["inp", "zinp", "suspect_threshold", "fail_threshold"]
    drop = rng.choice([0, 0, 0, 1, 2])
    values, names = values[: 4 - drop], names[: 4 - drop]
    args, kwargs = shuffled_kwargs(rng, names, values)
    both("density_inversion_test", ("qartod", "density_inversion_test"), args, kwargs)


# ---- qartod: qartod_compare ------------------------------------------------------------
def run_compare(rng):
    k = rng.choice([0, 1, 1, 2, 2, 2, 3, 3, 4, 5])
    n = rng.randint(0, 8)
    flag_pool = [1, 1, 1, 2, 2, 3, 3, 4, 4, 9, 9, 0, 5, 7, 255]
    vectors = []
    for _ in range(k):
        m = n if rng.random() < 0.92 else mismatch_len(rng, n)
        vals = [rng.choice(flag_pool) for _ in range(m)]
        kind = rng.random()
        if kind < 0.35:
            v = np.array(vals, dtype=rng.choice([np.uint8, np.uint8, np.int64, np.int8, np.float64, np.float32]))
        elif kind < 0.7:
            v = np.ma.MaskedArray(
                np.array(vals, dtype=rng.choice([np.uint8, np.int64, np.float64])),
                mask=[rng.random() < 0.3 for _ in vals] if rng.random() < 0.8 else np.ma.nomask,
            )
        elif kind < 0.78:
            v = np.array([NAN if rng.random() < 0.3 else x for x in vals], dtype=np.float64)
        elif kind < 0.84:
            v = pd.Series(vals, dtype="uint8")
        elif kind < 0.88:
            v = list(vals)  # no .shape
        elif kind < 0.92:
            v = np.array(rng.choice(flag_pool))  # 0-d
        elif kind < 0.97 and m in (4, 6, 8):
            v = np.array(vals, dtype=np.uint8).reshape(2, m // 2)
        else:
            v = np.array([str(x) for x in vals], dtype=object) if rng.random() < 0.5 else np.array(vals, dtype=bool)
        vectors.append(v)
    how = rng.random()
    if how < 0.7:
        arg = vectors
    elif how < 0.85:
        arg = tuple(vectors)
    elif how < 0.93 and k and all(isinstance(v, np.ndarray) and v.ndim == 1 and len(v) == n and type(v) is np.ndarray and v.dtype == vectors[0].dtype for v in vectors):
        arg = np.array(vectors) if n else vectors
    else:
        arg = None
    if arg is None:
        # one-shot iterator: has to be built separately for each implementation
        a1, a2 = copy.deepcopy(vectors), copy.deepcopy(vectors)
        check("qartod_compare", ORIG["qartod"].qartod_compare, NEW["qartod"].qartod_compare, [iter(a1)], {}, [iter(a2)], {})
        return
    if rng.random() < 0.2:
        both("qartod_compare", ("qartod", "qartod_compare"), [], {"vectors": arg})
    else:
        both("qartod_compare", ("qartod", "qartod_compare"), [arg], {})


# ---- qartod: ClimatologyConfig ---------------------------------------------------------
PERIODS = [None, None, None, "month", "month", "week", "weekofyear", "dayofyear", "dayofweek", "quarter", "year", "day", "hour"]
PERIOD_RANGES = {
    "month": (0, 13), "week": (0, 54), "weekofyear": (0, 54), "dayofyear": (0, 367), "dayofweek": (-1, 7),
    "quarter": (0, 5), "year": (2015, 2023), "day": (0, 32), "hour": (-1, 24),
}
T0 = pd.Timestamp("2019-11-20T00:00:00")


def gen_time_instants(rng, n):
    out = []
    for _ in range(n):
        out.append(T0 + pd.Timedelta(days=rng.choice([0, 0, 1, 5, 30, 45, 100, 200, 366, -20, -400]), hours=rng.choice([0, 0, 6, 12])))
    return out


def gen_member_spec(rng):
    period = rng.choice(PERIODS)
    if period is None:
        a = T0 + pd.Timedelta(days=rng.choice([-500, -30, -1, 0, 0, 1, 30]))
        b = T0 + pd.Timedelta(days=rng.choice([-10, 0, 0, 1, 5, 45, 100, 400]))
        tspan = (a, b) if rng.random() < 0.7 else (str(a), np.datetime64(b))
    else:
        lo, hi = PERIOD_RANGES[period]
        tspan = (rng.randint(lo, hi), rng.randint(lo, hi))
    vspan = (rng.choice([-5, 0, 1, 1.5, 2, 3]), rng.choice([1, 2, 2.5, 3, 5, 10, 100]))
    fspan = None if rng.random() < 0.5 else (rng.choice([-10, -5, 0, 1]), rng.choice([3, 5, 10, 100, 200]))
    zspan = None if rng.random() < 0.5 else (rng.choice([0, 0, 1, 5, 10, -1]), rng.choice([0, 1, 5, 10, 50, 100]))
    return {"tspan": tspan, "vspan": vspan, "fspan": fspan, "zspan": zspan, "period": period}


def build_config(mod, specs, rng_state):
    """Build a ClimatologyConfig for module `mod` out of member specs (same for both)."""
    rng = random.Random(rng_state)
    cfg = mod.ClimatologyConfig()
    for s in specs:
        if s.get("_direct"):
            d = dict(s)
            d.pop("_direct")
            sp = mod.span
            mk = lambda v: v if v is None or not isinstance(v, tuple) else sp(*v)  # noqa: E731
            cfg._members.append(mod.ClimatologyConfig.mem(mk(d["tspan"]), mk(d["fspan"]), mk(d["vspan"]), mk(d["zspan"]), d["period"]))
        else:
            names = list(s)
            rng.shuffle(names)
            cfg.add(**{k: s[k] for k in names})
    return cfg


def gen_config_specs(rng):
    specs = []
    for _ in range(rng.choice([0, 1, 1, 2, 2, 3, 4])):
        s = gen_member_spec(rng)
        r = rng.random()
        if r < 0.12:
            # hand-made member (not sorted / odd content), bypassing add()
            s["_direct"] = True
            if s["period"] is None:
                s["tspan"] = tuple(pd.Timestamp(x) for x in s["tspan"])
            weird = rng.random()
            if weird < 0.2:
                s["period"] = "fortnight"  # not an attribute
            elif weird < 0.35:
                s["zspan"] = np.nan
            elif weird < 0.5:
                s["fspan"] = np.ma.masked
            elif weird < 0.6:
                s["vspan"] = None
            elif weird < 0.7:
                s["tspan"] = (3, 7)  # numbers against timestamps
        specs.append(s)
    return specs


def gen_depths(rng, n):
    kind = rng.random()
    if kind < 0.2:
        vals = [NAN] * n
    elif kind < 0.3:
        vals = [None] * n
    else:
        vals = [rng.choice([0, 0.5, 1, 2, 5, 5, 10, 20, 50, 100, -1, NAN, None]) for _ in range(n)]
    return vals


def run_clim_values(rng):
    specs = gen_config_specs(rng)
    state = rng.random()
    try:
        co = build_config(ORIG["qartod"], specs, state)
        cn = build_config(NEW["qartod"], specs, state)
    except Exception:
        return run_clim_values(rng)
    tind = rng.choice(gen_time_instants(rng, 3) + [T0, T0 + pd.Timedelta(days=45)])
    r = rng.random()
    if r < 0.06:
        tind = rng.choice([np.datetime64(tind), tind.to_pydatetime(), 5, None, str(tind)])
    zind = rng.choice([None, None, np.nan, np.ma.masked, NAN, 0, 0.5, 1, 5, 5, 10, 20, 50, 100, -1, np.float64(5), "5", np.array([1, 5])])
    how = rng.random()
    if how < 0.4:
        a, k = [tind, zind], {}
    elif how < 0.6:
        a, k = [tind], {"zind": zind}
    elif how < 0.8:
        a, k = [], {"zind": zind, "tind": tind}
    elif zind is None:
        a, k = [tind], {}
    else:
        a, k = [], {"tind": tind, "zind": zind}
    a1, k1 = copy.deepcopy((a, k))
    a2, k2 = copy.deepcopy((a, k))
    # np.nan / np.ma.masked are identity-tested by isnan(): deepcopy keeps float identity,
    # but make sure both calls get the very same singleton
    for aa in (a1, a2):
        for i, v in enumerate(aa):
            if a[i] is np.nan or a[i] is np.ma.masked:
                aa[i] = a[i]
    for kk in (k1, k2):
        for key in kk:
            if k[key] is np.nan or k[key] is np.ma.masked:
                kk[key] = k[key]
    members_before = (list(co._members), list(cn._members))
    check("ClimatologyConfig.values", co.values, cn.values, a1, k1, a2, k2)
    assert len(co._members) == len(members_before[0]) and len(cn._members) == len(members_before[1])


def _as_masked(rng, vals):
    arr = np.array([NAN if v is None else v for v in vals], dtype=np.float64)
    with warnings.catch_warnings():
        warnings.simplefilter("ignore")
        m = np.ma.masked_invalid(arr)
    r = rng.random()
    if r < 0.15 and len(vals):
        # extra masked entries with valid data under the mask
        m = np.ma.MaskedArray(m.data.copy(), mask=np.ma.getmaskarray(m) | np.array([rng.random() < 0.3 for _ in vals]))
    elif r < 0.22:
        m = np.ma.MaskedArray(np.nan_to_num(arr, nan=1.0, posinf=2.0, neginf=0.0))  # nomask
    elif r < 0.25:
        return arr  # plain ndarray: no .mask
    return m


def run_clim_check(rng):
    specs = gen_config_specs(rng)
    state = rng.random()
    try:
        co = build_config(ORIG["qartod"], specs, state)
        cn = build_config(NEW["qartod"], specs, state)
    except Exception:
        return run_clim_check(rng)
    n = rng.randint(0, 8)
    tinp = pd.DatetimeIndex(gen_time_instants(rng, n))
    if rng.random() < 0.04:
        tinp = tinp.values
    inp = _as_masked(rng, gen_values(rng, n))
    nz = n if rng.random() < 0.94 else mismatch_len(rng, n)
    zinp = _as_masked(rng, gen_depths(rng, nz))
    if rng.random() < 0.03 and n in (4, 6, 8):
        inp = inp.reshape(2, -1)
    values, names = [tinp, inp, zinp], ["tinp", "inp", "zinp"]
    a, k = shuffled_kwargs(rng, names, values)
    a1, k1 = copy.deepcopy((a, k))
    a2, k2 = copy.deepcopy((a, k))
    check("ClimatologyConfig.check", co.check, cn.check, a1, k1, a2, k2)


def run_clim_test(rng):
    """End to end through climatology_test (extra, on top of the direct check() runs)."""
    specs = [s for s in gen_config_specs(rng) if not s.get("_direct")]
    n = rng.randint(0, 8)
    inp = wrap_series(rng, gen_values(rng, n))
    tinp = gen_times(rng, n, like=inp if isinstance(inp, np.ndarray) else None)
    if rng.random() < 0.6:
        tinp = np.array(gen_time_instants(rng, n), dtype="datetime64[ns]")
    zinp = wrap_series(rng, gen_depths(rng, n if rng.random() < 0.95 else mismatch_len(rng, n)), allow_2d=False)
    if isinstance(inp, np.ndarray) and inp.ndim == 2:
        zinp = np.array([NAN if v is None else v for v in gen_depths(rng, n)], dtype=np.float64).reshape(inp.shape)
    values, names = [specs, inp, tinp, zinp], ["config", "inp", "tinp", "zinp"]
    a, k = shuffled_kwargs(rng, names, values)
    both("climatology_test(end-to-end)", ("qartod", "climatology_test"), a, k)


# ---- results ---------------------------------------------------------------------------
def _probe():  # stands for a test function
    return None


def _other_probe():
    return None


class Fmt:
    """An object whose format(), str() and repr() all differ."""

    def __init__(self, tag):
        self.tag = tag

    def __format__(self, spec):
        return f"F<{self.tag}|{spec}>"

    def __str__(self):
        return f"S<{self.tag}>"

    def __repr__(self):
        return f"R<{self.tag}>"

    def __eq__(self, other):
        return isinstance(other, Fmt) and other.tag == self.tag

    def __hash__(self):
        return hash(self.tag)


class StrSub(str):
    def __format__(self, spec):
        return "fmt:" + str.__str__(self)

    def __str__(self):
        return "str:" + str.__repr__(self)


ID_POOL = ["s1", "s1", "s2", "temp", None, "", 7, 1.5, ("a", 1), "a:b", "a.b", "{x}", "%s", "ünï", True]
PKG_POOL = ["qartod", "qartod", "qartod", "argo", "axds", "", None, 3, "q.a"]
TEST_POOL = ["spike_test", "spike_test", "gross_range_test", "flat_line_test", "aggregate", "", None, 2, "t:1"]


def run_hash_repr(rng):
    def pick(pool):
        r = rng.random()
        if r < 0.08:
            return Fmt(rng.choice(["a", "b"]))
        if r < 0.14:
            return StrSub(rng.choice(["s1", "qartod", "x y"]))
        if r < 0.2:
            return rng.choice([NAN, np.float32(1.5), np.int64(3), b"by", [1, 2], {"k": 1}, np.array([1, 2]), pd.Timestamp("2020-01-01"), "".join(rng.choice("ab{}%:._ \n\"'") for _ in range(rng.randint(0, 6)))])
        return rng.choice(pool)

    fields = [pick(ID_POOL), pick(PKG_POOL), pick(TEST_POOL), rng.choice([_probe, None])]
    names = ["stream_id", "package", "test", "function"]
    a, k = shuffled_kwargs(rng, names, fields)

    def make(mod):
        def run():
            cr = mod.CollectedResult(*copy.deepcopy(a), **copy.deepcopy(k))
            out = []
            for what in (lambda c: c.hash_key, repr, lambda c: type(c).__repr__(c), lambda c: type(c).hash_key.fget(c), str):
                try:
                    out.append(what(cr))
                except Exception as e:  # noqa: BLE001
                    out.append(Raised(e))
            return out

        return run

    check("CollectedResult.hash_key/__repr__", make(ORIG["results"]), make(NEW["results"]), [], {}, [], {})


def gen_context_specs(rng):
    """Specs of ContextResult / CallResult objects, to be built with either module's classes."""
    specs = []
    n = rng.randint(0, 8)
    for _ in range(rng.choice([0, 1, 1, 2, 2, 3, 3, 4])):
        if rng.random() < 0.15:
            specs.append(("call", rng.choice(PKG_POOL[:5]), rng.choice(TEST_POOL[:5]), rng.choice([_probe, _other_probe]), gen_flags(rng, rng.randint(0, 8))))
            continue
        r = rng.random()
        if r < 0.35:
            subset = np.ones(n, dtype=bool)
        elif r < 0.9:
            subset = np.array([rng.random() < 0.6 for _ in range(n)], dtype=bool)
        elif r < 0.95:
            subset = np.zeros(n, dtype=bool)
        else:
            subset = rng.choice([None, np.flatnonzero(np.array([rng.random() < 0.5 for _ in range(n)], dtype=bool)), [True] * n, np.ones((2, max(n // 2, 1)), dtype=bool)])
        try:
            cnt = int(np.count_nonzero(subset)) if isinstance(subset, np.ndarray) and subset.dtype == bool else rng.randint(0, 4)
        except Exception:
            cnt = 0
        calls = []
        for _ in range(rng.choice([0, 1, 1, 2, 2, 3])):
            m = cnt if rng.random() < 0.93 else mismatch_len(rng, cnt)
            calls.append((rng.choice(PKG_POOL[:5]), rng.choice(TEST_POOL[:5]), rng.choice([_probe, _other_probe]), gen_flags(rng, m)))

        def arr(kind):
            m = cnt if rng.random() < 0.96 else mismatch_len(rng, cnt)
            r2 = rng.random()
            if r2 < 0.04:
                return None
            if kind == "t":
                a = np.array([np.datetime64("2020-01-01T00:00:00") + np.timedelta64(int(60 * i), "s") for i in range(m)], dtype="datetime64[s]" if rng.random() < 0.5 else "datetime64[ns]")
                return a
            vals = [rng.choice([0, 1, 2.5, 10, -3, NAN]) for _ in range(m)]
            if r2 < 0.5:
                return np.array(vals, dtype=np.float64)
            if r2 < 0.7:
                return np.ma.MaskedArray(np.array(vals, dtype=np.float64), mask=[rng.random() < 0.3 for _ in vals])
            if r2 < 0.85:
                return np.array([0 if v != v else int(v) for v in vals], dtype=np.int64)
            return np.array(vals, dtype=np.float32)

        specs.append(("context", rng.choice(ID_POOL[:6]), calls, subset, arr("d"), arr("t"), arr("z"), arr("y"), arr("x")))
    return specs


def gen_flags(rng, m):
    vals = [rng.choice([1, 1, 1, 2, 3, 4, 9]) for _ in range(m)]
    r = rng.random()
    if r < 0.5:
        return np.ma.MaskedArray(np.array(vals, dtype=np.uint8))
    if r < 0.75:
        return np.ma.MaskedArray(np.array(vals, dtype=np.uint8), mask=[rng.random() < 0.2 for _ in vals])
    if r < 0.9:
        return np.array(vals, dtype=np.uint8)
    if r < 0.95:
        return np.array(vals, dtype=np.int64)
    return list(vals) if rng.random() < 0.5 else np.array(vals, dtype=np.float64)


def build_results(mod, specs):
    specs = copy.deepcopy(specs)
    out = []
    for s in specs:
        if s[0] == "call":
            out.append(mod.CallResult(package=s[1], test=s[2], function=s[3], results=s[4]))
        else:
            _, sid, calls, subset, d, t, z, y, x = s
            out.append(
                mod.ContextResult(
                    stream_id=sid,
                    results=[mod.CallResult(package=c[0], test=c[1], function=c[2], results=c[3]) for c in calls],
                    subset_indexes=subset,
                    data=d,
                    tinp=t,
                    zinp=z,
                    lat=y,
                    lon=x,
                ),
            )
    return out


def _alias_report(result, args, kwargs):
    """Besides the value, report which result arrays ARE (share memory with) an input array."""
    inputs = []
    for r in args[0] if args else kwargs["results"]:
        if type(r).__name__ == "ContextResult":
            inputs.extend([r.data, r.tinp, r.zinp, r.lat, r.lon, r.subset_indexes] + [c.results for c in r.results])
        else:
            inputs.append(r.results)

    def where(x):
        return [i for i, a in enumerate(inputs) if a is x]

    if isinstance(result, list):
        ali = [[where(getattr(c, f)) for f in ("results", "data", "tinp", "zinp", "lat", "lon")] for c in result]
    else:
        ali = [[[where(v) for v in pk.values()] if isinstance(pk, dict) else where(pk) for pk in st.values()] for st in result.values()]
    return (result, ali)


def run_collect(rng, which):
    specs = gen_context_specs(rng)
    ro = build_results(ORIG["results"], specs)
    rn = build_results(NEW["results"], specs)
    wrap = rng.random()
    if wrap < 0.15:
        ro, rn = tuple(ro), tuple(rn)
    target = f"collect_results_{which}"
    fo = getattr(ORIG["results"], target)
    fn = getattr(NEW["results"], target)
    if wrap > 0.92:
        # through the dispatcher, which must still reach the refactored function
        fo0, fn0 = ORIG["results"].collect_results, NEW["results"].collect_results
        how = rng.choice([which, list if which == "list" else dict])
        check(target, lambda results: fo0(results, how), lambda results: fn0(results, how), [ro], {}, [rn], {}, raw=False, post=_alias_report)
        return
    if rng.random() < 0.2:
        check(target, fo, fn, [], {"results": ro}, [], {"results": rn}, raw=False, post=_alias_report)
    else:
        check(target, fo, fn, [ro], {}, [rn], {}, raw=False, post=_alias_report)


# ---- utils -----------------------------------------------------------------------------
NAME_ALPHABET = list("abcXYZ019_ -.:/\\()[]{}%$#@!~^&*+=|'\"\t\n") + ["é", "ß", "٣", "²", "Ⅷ", "中", "\u00a0", "\U0001f600", "\x00", "０"]


def run_cf_safe_name(rng):
    r = rng.random()
    if r < 0.8:
        name = "".join(rng.choice(NAME_ALPHABET) for _ in range(rng.choice([0, 1, 1, 2, 3, 4, 6, 9, 14])))
        if rng.random() < 0.3:
            name = rng.choice(["_", "9", "0", "٣", "v_", "__", "1a", "_a", "a1", "\n1", "1\n"]) + name
    elif r < 0.87:
        name = StrSub("".join(rng.choice(NAME_ALPHABET) for _ in range(rng.randint(0, 6))))
    else:
        name = rng.choice([None, 0, 12, 1.5, NAN, b"bytes", b"1x", ("a", "b"), ("a",), (), ["x"], {"a": 1}, Fmt("n"), np.str_("np1 x"), np.bytes_(b"q"), np.array(["a"]), True, object, Path("a b/1c")])
    if rng.random() < 0.2:
        both("cf_safe_name", ("utils", "cf_safe_name"), [], {"name": name})
    else:
        both("cf_safe_name", ("utils", "cf_safe_name"), [name], {})


TMP = tempfile.mkdtemp(prefix="equiv_")

GOOD_CONFIGS = [
    {"qartod": {"gross_range_test": {"fail_span": [0, 10], "suspect_span": [1, 9]}}},
    {"temp": {"qartod": {"spike_test": {"suspect_threshold": 1, "fail_threshold": 2}}}},
    {"streams": {"v1": {"qartod": {"flat_line_test": {"tolerance": 0.1, "suspect_threshold": 3, "fail_threshold": 6}}}}},
    {},
    {"a": 1, "b": [1, 2, {"c": None}], "z": "text"},
    {"1": {"2": {"3": 4.5}}},
]
YAML_TEXTS = [
    "a: 1\nb:\n  c: [1, 2]\n",
    "qartod:\n  gross_range_test:\n    fail_span: [0, 10]\n",
    "z: 1\na: 2\nm: 3\n",
    "- 1\n- 2\n",
    "- [a, 1]\n- [b, 2]\n",
    "just a string",
    "12",
    "",
    "a: [1, 2\n",
    "a: 1\na: 2\n",
    "{\"a\":\t{\"b\":\t1}}",
    "\t{\"a\": 1}",
    "{\"a\": 1, \"b\": {\"c\": [1, 2.5, null, true]}}",
    "[[\"a\", 1], [\"b\", 2]]",
    "{\"a\": 1,}",
    "null",
    "a: !!python/object:os.system 1",
    "? [1, 2]\n: x\n",
    "a: &x 1\nb: *x\n",
    "%YAML 9.9\n---\na: 1\n",
    "key: value: oops",
    "{a: 1, b: 2}",
    "a:\t1",
]


def _write(name, text):
    p = os.path.join(TMP, name)
    with open(p, "w") as f:
        f.write(text)
    return p


def _qc_dataset(rng, with_global=None):
    """A small in-memory dataset whose variables carry (subsets of) the ioos_qc_* attributes."""
    ds = xr.Dataset()
    n = 3
    ds["time"] = ("time", np.arange(n))
    targets = ["temp", "temp", "salt", "pres", "t.2", 5]
    for i in range(rng.choice([0, 1, 2, 2, 3, 4, 5])):
        attrs = {}
        if rng.random() < 0.9:
            attrs["ioos_qc_module"] = rng.choice(["qartod", "qartod", "argo", "", 3, ["l", "m"], np.array([1, 2])])
        if rng.random() < 0.9:
            attrs["ioos_qc_test"] = rng.choice(["spike_test", "gross_range_test", "flat_line_test", "spike_test", 4, ("t",)])
        if rng.random() < 0.9:
            attrs["ioos_qc_config"] = rng.choice(
                [
                    json.dumps({"suspect_threshold": rng.choice([1, 2]), "fail_threshold": 3}),
                    json.dumps({"fail_span": [0, 10]}),
                    json.dumps({"nested": {"a": [1, 2], "b": None}}),
                    "{}",
                    "[1, 2]",
                    "[[\"k\", 1]]",
                    "not json",
                    "",
                    3,
                    "null",
                ],
            )
        if rng.random() < 0.9:
            attrs["ioos_qc_target"] = rng.choice(targets)
        if rng.random() < 0.1:
            attrs["ioos_qc_target"] = rng.choice([["un", "hashable"], np.array([1, 2]), None])
        attrs = {k: v for k, v in attrs.items() if v is not None or rng.random() < 0.5}
        name = rng.choice([f"qc_{i}", f"var{i}", i, f"q {i}"])
        dims = rng.choice([("time",), (), ("time", "z")])
        shape = tuple({"time": n, "z": 2}[d] for d in dims)
        ds[name] = (dims, np.zeros(shape), attrs)
    if rng.random() < 0.3:
        ds["temp"] = ("time", np.arange(n, dtype=float))
    if with_global is None:
        with_global = rng.random() < 0.3
    if with_global:
        ds.attrs["ioos_qc_config"] = rng.choice(
            [json.dumps(rng.choice(GOOD_CONFIGS)), rng.choice(YAML_TEXTS), rng.choice(YAML_TEXTS), None, 5, {"a": {"b": 1}}, OrderedDict(x=1), ["l"]],
        )
    if rng.random() < 0.3:
        ds.attrs["title"] = "something else"
    return ds


_NC_FILES = []


def _nc_files():
    """A handful of netCDF files on disk (written once)."""
    if _NC_FILES:
        return _NC_FILES
    rng = random.Random(99)
    made = 0
    attempt = 0
    while made < 12 and attempt < 200:
        attempt += 1
        ds = _qc_dataset(rng, with_global=(attempt % 3 == 0))
        # only what the on-disk format can hold
        keep = xr.Dataset()
        keep["time"] = ds["time"]
        for name in ds.data_vars:
            if not isinstance(name, str) or " " in name:
                continue
            attrs = {k: v for k, v in ds[name].attrs.items() if isinstance(v, (str, int, float)) and v != ""}
            keep[name] = (ds[name].dims, ds[name].values, attrs)
        if isinstance(ds.attrs.get("ioos_qc_config"), str) and ds.attrs["ioos_qc_config"]:
            keep.attrs["ioos_qc_config"] = ds.attrs["ioos_qc_config"]
        p = os.path.join(TMP, f"cfg_{made}.nc")
        try:
            keep.to_netcdf(p, engine="scipy")
        except Exception:
            continue
        _NC_FILES.append(p)
        made += 1
    assert len(_NC_FILES) >= 6, "could not write netCDF fixtures"
    return _NC_FILES


_TEXT_FILES = []


def _text_files():
    if _TEXT_FILES:
        return _TEXT_FILES
    for i, t in enumerate(YAML_TEXTS):
        _TEXT_FILES.append(_write(f"text_{i}.yaml", t))
    for i, c in enumerate(GOOD_CONFIGS):
        _TEXT_FILES.append(_write(f"good_{i}.json", json.dumps(c)))
        _TEXT_FILES.append(_write(f"good_{i}.yaml", json.dumps(c, indent=1)))
    _TEXT_FILES.append(_write("tabs.json", "{\n\t\"a\":\t{\"b\": [1,\t2]}\n}\n"))
    _TEXT_FILES.append(_write("binary.bin", "\x00\x01\x02 not a config \x7f"))
    _TEXT_FILES.append(os.path.join(TMP, "does_not_exist.yaml"))
    _TEXT_FILES.append(TMP)  # a directory
    return _TEXT_FILES


class ClosingIO(io.StringIO):
    pass


def gen_config_source(rng):
    """-> (kind, factory) where factory() builds a fresh, equal source object."""
    r = rng.random()
    if r < 0.1:
        c = copy.deepcopy(rng.choice(GOOD_CONFIGS))
        return lambda: copy.deepcopy(c)
    if r < 0.2:
        c = copy.deepcopy(rng.choice(GOOD_CONFIGS))
        kind = rng.random()
        if kind < 0.6:
            return lambda: OrderedDict(copy.deepcopy(c))
        if kind < 0.8:
            return lambda: defaultdict(list, copy.deepcopy(c))

        class ODSub(OrderedDict):
            pass

        return lambda: ODSub(copy.deepcopy(c))
    if r < 0.42:
        kind = rng.random()
        if kind < 0.5:
            t = rng.choice(YAML_TEXTS)
        elif kind < 0.8:
            t = json.dumps(rng.choice(GOOD_CONFIGS), indent=rng.choice([None, 1, "\t"]))
        else:
            t = "".join(rng.choice("ab:{}[]-, \n\t\"1'#&*!|>%@`") for _ in range(rng.randint(0, 12)))
        if rng.random() < 0.1:
            return lambda: StrSub(t)
        return lambda: t
    if r < 0.6:
        p = rng.choice(_text_files() + _nc_files())
        if rng.random() < 0.5:
            return lambda: Path(p)
        return lambda: p
    if r < 0.85:
        kind = rng.random()
        if kind < 0.45:
            t = rng.choice(YAML_TEXTS)
        elif kind < 0.85:
            t = json.dumps(rng.choice(GOOD_CONFIGS), indent=rng.choice([None, 1, "\t"]))
        else:
            t = rng.choice(_text_files())
        mode = rng.random()

        def make():
            s = io.StringIO(t) if mode < 0.8 else ClosingIO(t)
            if 0.3 < mode < 0.45:
                s.read(3)
            if 0.45 < mode < 0.55:
                s.close()
            return s

        return make
    if r < 0.93:
        seed = rng.random()
        return lambda: _qc_dataset(random.Random(seed))
    other = rng.choice([None, 0, 12, 1.5, b"a: 1", ["a", 1], (("a", 1),), {"a"}, io.BytesIO(b"a: 1"), object(), np.array(["a: 1"])])
    return lambda: other


def _identity_report(result, args, kwargs):
    src = args[0] if args else kwargs["source"]
    return (result, result is src)


def run_load_config_as_dict(rng):
    factory = gen_config_source(rng)
    so, sn = factory(), factory()
    if rng.random() < 0.2:
        ao, ko, an, kn = [], {"source": so}, [], {"source": sn}
    else:
        ao, ko, an, kn = [so], {}, [sn], {}
    check("load_config_as_dict", ORIG["utils"].load_config_as_dict, NEW["utils"].load_config_as_dict, ao, ko, an, kn, post=_identity_report)


def run_load_config_from_xarray(rng):
    _text_files()  # some of the odd sources below point at them
    r = rng.random()
    if r < 0.8:
        seed = rng.random()
        so, sn = _qc_dataset(random.Random(seed)), _qc_dataset(random.Random(seed))
    elif r < 0.93:
        p = rng.choice(_nc_files())
        so, sn = (Path(p), Path(p)) if rng.random() < 0.4 else (p, p)
    else:
        other = rng.choice([None, 5, "no such file.nc", os.path.join(TMP, "text_0.yaml"), TMP, b"bytes", {"a": 1}, ["x"]])
        so, sn = copy.deepcopy(other), copy.deepcopy(other)

    closed = {}

    def spy(tag, mod):
        # count Dataset.close() calls made by each implementation
        def run(source):
            orig_close = xr.Dataset.close
            n = [0]

            def counting(self):
                n[0] += 1
                return orig_close(self)

            xr.Dataset.close = counting
            try:
                return mod.load_config_from_xarray(source)
            finally:
                xr.Dataset.close = orig_close
                closed[tag] = n[0]

        return run

    before = len(FAILURES)
    if rng.random() < 0.2:
        check("load_config_from_xarray", lambda source: spy("o", ORIG["utils"])(source), lambda source: spy("n", NEW["utils"])(source), [], {"source": so}, [], {"source": sn})
    else:
        check("load_config_from_xarray", spy("o", ORIG["utils"]), spy("n", NEW["utils"]), [so], {}, [sn], {})
    if closed.get("o") != closed.get("n") and len(FAILURES) == before:
        FAILURES.append(("load_config_from_xarray", f"close() calls differ: {closed}"))
        print("MISMATCH in load_config_from_xarray: close() calls differ", closed)


# --------------------------------------------------------------------------------------
TARGETS = [
    ("flat_line_test", run_flat_line, 1),
    ("spike_test", run_spike, 1),
    ("density_inversion_test", run_density, 1),
    ("qartod_compare", run_compare, 1),
    ("ClimatologyConfig.check", run_clim_check, 1),
    ("ClimatologyConfig.values", run_clim_values, 1),
    ("climatology_test(end-to-end)", run_clim_test, 0.34),
    ("collect_results_list", lambda rng: run_collect(rng, "list"), 1),
    ("collect_results_dict", lambda rng: run_collect(rng, "dict"), 1),
    ("CollectedResult.hash_key/__repr__", run_hash_repr, 1),
    ("cf_safe_name", run_cf_safe_name, 1),
    ("load_config_as_dict", run_load_config_as_dict, 1),
    ("load_config_from_xarray", run_load_config_from_xarray, 1),
]


def main():
    only = os.environ.get("EQUIV_ONLY")
    for i, (name, runner, share) in enumerate(TARGETS):
        if only and only not in name:
            continue
        rng = random.Random(1000 + i)
        np.random.seed(1000 + i)
        want = max(1, int(N_CASES * share))
        guard = 0
        while COUNTS.get(name, 0) < want and guard < want * 3:
            guard += 1
            runner(rng)
        bad = len([1 for t, _ in FAILURES if t == name])
        outcomes = ", ".join(f"{k}={v}" for k, v in sorted(OUTCOMES[name].items(), key=lambda kv: -kv[1]))
        print(f"{name:40s} cases={COUNTS.get(name, 0):5d} mismatches={bad:4d}   [{outcomes}]")
        if SEEN[name]:
            print(f"{'':40s} seen: {sorted(SEEN[name], key=str)}")
        sys.stdout.flush()
    if FAILURES:
        print(f"FAILED: {len(FAILURES)} mismatching inputs")
        return 1
    print("OK: the refactored functions are indistinguishable from the originals on all generated inputs")
    return 0


if __name__ == "__main__":
    try:
        code = main()
    finally:
        import shutil

        shutil.rmtree(TMP, ignore_errors=True)
        if _PRISTINE_TMP:
            shutil.rmtree(_PRISTINE_TMP, ignore_errors=True)
    sys.exit(code)
