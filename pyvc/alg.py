"""Scalar algebra with two readings.

Every operation accepts concrete Python values (bool, int, Fraction) and z3
terms.  When all operands are concrete the result is computed by Python and
stays concrete; otherwise a z3 term is built.  The numpy/pandas models and the
contract clauses are written once against this algebra, so the same text is an
SMT formula in a proof run and an executable predicate in a replay, a
conformance run or a bounded stand-in.

Numbers: float64 is read as (isnan, real) - see DESIGN.md T3.  Concrete reals
are Fractions, so the concrete reading is exact and agrees with IEEE doubles on
the dyadic grids the conformance runs use.
"""
from fractions import Fraction

import z3

ExprRef = z3.ExprRef


def is_sym(x):
    return isinstance(x, ExprRef)


def conc(x):
    """Normalise a concrete number."""
    if isinstance(x, (bool, int, Fraction)):
        return x
    if isinstance(x, float):
        if x != x or x in (float("inf"), float("-inf")):
            raise ValueError("non-finite concrete float in the real-number model: %r" % (x,))
        if x == int(x):
            return int(x)
        return Fraction(x)
    try:
        import numpy as _np

        if isinstance(x, _np.bool_):
            return bool(x)
        if isinstance(x, _np.integer):
            return int(x)
        if isinstance(x, _np.floating):
            return conc(float(x))
    except ImportError:  # pragma: no cover
        pass
    raise TypeError("not a number for the algebra: %r (%s)" % (x, type(x)))


def lift(x):
    if isinstance(x, ExprRef):
        return x
    if isinstance(x, bool):
        return z3.BoolVal(x)
    if isinstance(x, int):
        return z3.IntVal(x)
    if isinstance(x, Fraction):
        if x.denominator == 1:
            return z3.RealVal(x.numerator)
        return z3.Q(x.numerator, x.denominator)
    return lift(conc(x))


def _num(x):
    return x if isinstance(x, ExprRef) else conc(x)


def _both(a, b):
    """coerce a, b to z3 terms of one arithmetic sort"""
    a, b = lift(a), lift(b)
    if z3.is_int(a) and z3.is_real(b):
        a = z3.ToReal(a)
    elif z3.is_real(a) and z3.is_int(b):
        b = z3.ToReal(b)
    return a, b


# ---------------------------------------------------------------- booleans
def and_(*xs):
    out = []
    for x in xs:
        if isinstance(x, ExprRef):
            if z3.is_true(x):
                continue
            if z3.is_false(x):
                return False
            out.append(x)
        elif not x:
            return False
    if not out:
        return True
    if len(out) == 1:
        return out[0]
    return z3.And(*out)


def or_(*xs):
    out = []
    for x in xs:
        if isinstance(x, ExprRef):
            if z3.is_false(x):
                continue
            if z3.is_true(x):
                return True
            out.append(x)
        elif x:
            return True
    if not out:
        return False
    if len(out) == 1:
        return out[0]
    return z3.Or(*out)


def not_(x):
    if isinstance(x, ExprRef):
        if z3.is_true(x):
            return False
        if z3.is_false(x):
            return True
        return z3.Not(x)
    return not x


def implies(a, b):
    return or_(not_(a), b)


def iff(a, b):
    if not is_sym(a) and not is_sym(b):
        return bool(a) == bool(b)
    return lift(a) == lift(b)


def xor(a, b):
    return not_(iff(a, b))


def ite(c, a, b):
    if not isinstance(c, ExprRef):
        return a if c else b
    if z3.is_true(c):
        return a
    if z3.is_false(c):
        return b
    if a is b:
        return a
    if not is_sym(a) and not is_sym(b) and type(a) is type(b) and a == b:
        return a
    if isinstance(a, bool) or isinstance(b, bool) or (is_sym(a) and z3.is_bool(a)) or (is_sym(b) and z3.is_bool(b)):
        return z3.If(c, lift(a), lift(b))
    x, y = _both(a, b)
    return z3.If(c, x, y)


# ---------------------------------------------------------------- arithmetic
def add(a, b):
    if is_sym(a) or is_sym(b):
        x, y = _both(a, b)
        return x + y
    return conc(a) + conc(b)


def sub(a, b):
    if is_sym(a) or is_sym(b):
        x, y = _both(a, b)
        return x - y
    return conc(a) - conc(b)


def mul(a, b):
    if is_sym(a) or is_sym(b):
        if not is_sym(a) and conc(a) == 0 or not is_sym(b) and conc(b) == 0:
            return 0
        x, y = _both(a, b)
        return x * y
    return conc(a) * conc(b)


def neg(a):
    if is_sym(a):
        return -a
    return -conc(a)


def rdiv(a, b):
    """real division; the caller guarantees b != 0 (obligation or model rule)"""
    if is_sym(a) or is_sym(b):
        x, y = _both(a, b)
        if z3.is_int(x):
            x = z3.ToReal(x)
        if z3.is_int(y):
            y = z3.ToReal(y)
        return x / y
    a, b = conc(a), conc(b)
    if b == 0:
        return Fraction(0)  # concrete reading of a guarded clause: the guard decides, the value is unused
    return Fraction(a) / Fraction(b)


def idiv(a, b):
    """floor division of integers by a positive concrete integer b"""
    assert isinstance(b, int) and b > 0
    if is_sym(a):
        assert z3.is_int(a)
        return a / z3.IntVal(b)  # z3 int division: floor for positive divisor
    return conc(a) // b


def mod(a, b):
    """a mod b for integers, b a positive concrete integer"""
    if is_sym(a):
        return a % b
    return conc(a) % b


def abs_(a):
    if is_sym(a):
        return z3.If(a >= 0, a, -a)
    return abs(conc(a))


def min_(a, b):
    return ite(le(a, b), a, b)


def max_(a, b):
    return ite(ge(a, b), a, b)


def to_real(a):
    if is_sym(a):
        return z3.ToReal(a) if z3.is_int(a) else a
    return conc(a)


def trunc(a):
    """truncation toward zero, result integer"""
    if is_sym(a):
        if z3.is_int(a):
            return a
        return z3.If(a >= 0, z3.ToInt(a), -z3.ToInt(-a))
    a = conc(a)
    if isinstance(a, int):
        return a
    return int(a)  # Fraction -> int truncates toward zero


def floor(a):
    if is_sym(a):
        return a if z3.is_int(a) else z3.ToInt(a)
    a = conc(a)
    if isinstance(a, int):
        return a
    return a.numerator // a.denominator


def sign(a):
    if is_sym(a):
        return z3.If(a > 0, z3.IntVal(1), z3.If(a < 0, z3.IntVal(-1), z3.IntVal(0)))
    a = conc(a)
    return (a > 0) - (a < 0)


# ---------------------------------------------------------------- comparisons
def _cmp(op, a, b):
    if is_sym(a) or is_sym(b):
        x, y = _both(a, b)
        return op(x, y)
    return op(conc(a), conc(b))


def lt(a, b):
    return _cmp(lambda x, y: x < y, a, b)


def le(a, b):
    return _cmp(lambda x, y: x <= y, a, b)


def gt(a, b):
    return _cmp(lambda x, y: x > y, a, b)


def ge(a, b):
    return _cmp(lambda x, y: x >= y, a, b)


def eq(a, b):
    if isinstance(a, bool) or isinstance(b, bool) or (is_sym(a) and z3.is_bool(a)) or (is_sym(b) and z3.is_bool(b)):
        return iff(a, b)
    return _cmp(lambda x, y: x == y, a, b)


def ne(a, b):
    return not_(eq(a, b))


def between(lo, x, hi):
    """lo <= x < hi"""
    return and_(le(lo, x), lt(x, hi))


def simp(x):
    """simplify; returns Python bool for decided booleans"""
    if not is_sym(x):
        return x
    s = z3.simplify(x)
    if z3.is_true(s):
        return True
    if z3.is_false(s):
        return False
    return s


def as_concrete(x):
    """concrete value of a term that simplifies to a literal, else None"""
    if not is_sym(x):
        return x
    s = z3.simplify(x)
    if z3.is_true(s):
        return True
    if z3.is_false(s):
        return False
    if z3.is_int_value(s):
        return s.as_long()
    if z3.is_rational_value(s):
        return Fraction(s.numerator_as_long(), s.denominator_as_long())
    return None
