"""Builtins rebound in the globals of the modules under verification.

Only the builtins whose C implementation needs a concrete answer from a proxy
(`len` must return an int, `int()` must return an int, `any()` iterates) are
rebound; everything else (sorted, min, max, isinstance, hasattr, tuple
comparison, ...) runs natively and forks through the proxies' __bool__.
"""
import builtins

from . import alg
from .values import SBool, SNum, truth


class _IntMeta(type):
    def __instancecheck__(cls, x):
        return isinstance(x, builtins.int) or (isinstance(x, SNum) and x.kind == "pyi")

    def __repr__(cls):
        return "<class 'int'>"


class model_int(metaclass=_IntMeta):
    def __new__(cls, x=0, *a):
        if isinstance(x, SNum):
            if alg.as_concrete(x.nan) is not False:
                from .ctx import cur

                if cur().fork(x.nan):
                    raise ValueError("cannot convert float NaN to integer")
            v = alg.trunc(x.val)
            c = alg.as_concrete(v)
            return builtins.int(c) if c is not None else SNum(v, False, "pyi")
        if isinstance(x, SBool):
            c = alg.as_concrete(x.t)
            return builtins.int(c) if c is not None else SNum(alg.ite(x.t, 1, 0), False, "pyi")
        return builtins.int(x, *a)


class _FloatMeta(type):
    def __instancecheck__(cls, x):
        return isinstance(x, builtins.float) or (isinstance(x, SNum) and x.kind == "pyf")

    def __repr__(cls):
        return "<class 'float'>"


class model_float(metaclass=_FloatMeta):
    def __new__(cls, x=0.0):
        if isinstance(x, SNum):
            return SNum(alg.to_real(x.val), x.nan, "pyf")
        if hasattr(x, "__pyvc_float__"):
            return x.__pyvc_float__()
        return builtins.float(x)


def model_len(x):
    n = getattr(x, "__pyvc_len__", None)
    if n is not None:
        return n()
    from .npmodel import Arr, MArr, _len_value

    if isinstance(x, (Arr, MArr)):
        return _len_value(x.n)
    return builtins.len(x)


def model_any(it):
    from .npmodel import Arr, MArr, reduce_any

    if isinstance(it, MArr):
        # builtin any() iterates: masked elements come out as np.ma.masked whose truth value is False
        mg = it._mask.getter() if it._mask is not None else None
        return reduce_any(it._data.copy(), None if mg is None else (lambda i: alg.not_(mg(i)[1])))
    if isinstance(it, Arr):
        return reduce_any(it.copy(), None)
    f = getattr(it, "__pyvc_any__", None)
    if f is not None:
        return f()
    return builtins.any(it)


def model_all(it):
    from .npmodel import Arr, MArr, reduce_all

    if isinstance(it, MArr):
        raise NotImplementedError("all() over a masked array")
    if isinstance(it, Arr):
        return reduce_all(it.copy(), None)
    f = getattr(it, "__pyvc_all__", None)
    if f is not None:
        return f()
    return builtins.all(it)


def model_map(f, *its):
    from .seqmodel import SymSeq

    if len(its) == 1 and isinstance(its[0], SymSeq):
        return its[0].map(f)
    return builtins.map(f, *its)


def model_max(*args, **kw):
    """max over a symbolic sequence of numbers: a value bounded below by every element and attained"""
    from .seqmodel import SymSeq

    if len(args) == 1 and isinstance(args[0], SymSeq) and not kw:
        import z3

        from .ctx import cur

        seq = args[0]
        c = cur()
        c.ensure(alg.gt(seq.K, 0), ValueError, "max() iterable argument is empty")
        m = c.fresh("max", z3.IntSort())
        w = c.fresh("maxw", z3.IntSort())
        val = lambda q: (seq.at(q).val if isinstance(seq.at(q), SNum) else seq.at(q))  # noqa: E731
        c.assume(alg.and_(alg.le(0, w), alg.lt(w, seq.K), alg.eq(m, val(w))))
        c.add_fact("max-bound", lambda q: alg.implies(alg.and_(alg.le(0, q), alg.lt(q, seq.K)), alg.ge(m, val(q))))
        c.index_seeds.append(w)
        return SNum(m, False, "pyi")
    return builtins.max(*args, **kw)


class _ListMeta(type):
    def __instancecheck__(cls, obj):
        return isinstance(obj, builtins.list)

    def __subclasscheck__(cls, sub):
        return issubclass(sub, builtins.list)


class model_list(metaclass=_ListMeta):
    """list(x): a model object that is itself a list-like abstraction answers with its own copy
    (__pyvc_list__); everything else is the real list.  isinstance(x, list) keeps its meaning."""

    def __new__(cls, *args, **kw):
        if len(args) == 1 and not kw and hasattr(args[0], "__pyvc_list__"):
            return args[0].__pyvc_list__()
        return builtins.list(*args, **kw)


REBOUND = {
    "list": model_list,
    "len": model_len,
    "int": model_int,
    "float": model_float,
    "any": model_any,
    "all": model_all,
    "map": model_map,
    "max": model_max,
}
