"""Opaque input carriers (C15): an input series / time axis handed to a QC test as an object on
which only the documented normalisation is permitted -
   data : np.array(carrier)  (then .astype(float64), masked_invalid)
   time : mapdates(carrier)
Any other operation on the raw carrier (attribute access such as .shape/.dtype, len(), indexing,
arithmetic, np.diff on it, ...) is recorded as a *carrier leak* and delegated to the canonical
ndarray so that the run continues.  A test without leaks computes its flags from the normalised
series only, hence gives the same flags for every carrier whose normalisation is the canonical
series (the carrier conversion facts themselves are checked on the real libraries, bounded)."""
from .ctx import active, cur
from .npmodel import Arr

_ALLOWED = {"__pyvc_array__", "__pyvc_time__", "__class__", "__dict__", "__repr__", "__format__", "__str__", "__init__", "__new__", "__getattribute__", "__setattr__", "__doc__", "__module__", "__reduce_ex__", "__deepcopy__", "__copy__", "__reduce__", "__getstate__", "__slots__"}


def _leak(what):
    if active():
        cur().notes.append(("carrier-leak", what))


class OpaqueSeries:
    """a data carrier: only `np.array(obj)` is permitted"""

    def __init__(self, arr, name="inp"):
        object.__setattr__(self, "_arr", arr)
        object.__setattr__(self, "_name", name)

    def __pyvc_array__(self):
        return object.__getattribute__(self, "_arr")

    def __getattr__(self, attr):
        if attr.startswith("__") and attr not in ("__len__", "__iter__", "__getitem__"):
            raise AttributeError(attr)
        _leak("%s.%s" % (object.__getattribute__(self, "_name"), attr))
        return getattr(object.__getattribute__(self, "_arr"), attr)

    def __pyvc_len__(self):
        _leak("len(%s)" % object.__getattribute__(self, "_name"))
        from .npmodel import _len_value

        return _len_value(object.__getattribute__(self, "_arr").n)

    def __getitem__(self, idx):
        _leak("%s[...]" % object.__getattribute__(self, "_name"))
        return object.__getattribute__(self, "_arr")[idx]


def _series_raw(self):
    return RawArray(object.__getattribute__(self, "_arr"), object.__getattribute__(self, "_name"))


OpaqueSeries.__pyvc_raw__ = _series_raw


class RawArray(OpaqueSeries):
    """np.array(carrier): an ndarray whose element type is the carrier's own - float32, int16, object
    (None entries), ... - hence unknown.  The documented normalisation continues with
    .astype(float64), which yields the canonical series; anything else done with this array (reading
    its dtype, comparing, differencing, handing it to masked_invalid) would make the flags depend on
    the carrier's element type and is a carrier leak."""

    def astype(self, t, *a, **k):
        from .npmodel import dtype_of

        d = dtype_of(t)
        if d.kind == "f":
            return object.__getattribute__(self, "_arr").copy()
        _leak("np.array(%s).astype(%s)" % (object.__getattribute__(self, "_name"), t))
        return object.__getattribute__(self, "_arr").astype(t)

    def __pyvc_array__(self):
        _leak("np.array(%s) used before the conversion to float64" % object.__getattribute__(self, "_name"))
        return object.__getattribute__(self, "_arr")

    def __pyvc_raw__(self):
        return self


class OpaqueTimes(OpaqueSeries):
    """a time carrier: only `mapdates(obj)` is permitted (the check binds mapdates to a stub that
    accepts it)"""

    def __pyvc_time__(self):
        return object.__getattribute__(self, "_arr")

    def __pyvc_array__(self):
        _leak("np.array(%s) instead of mapdates" % object.__getattribute__(self, "_name"))
        return object.__getattribute__(self, "_arr")


def mapdates_stub(real_mapdates):
    """contract of utils.mapdates for the abstract time carrier: the canonical datetime64[ns]
    array (fresh copy).  Other arguments run the real function."""

    def stub(dates):
        if isinstance(dates, OpaqueTimes):
            if active():
                cur().use("contract utils.mapdates (carrier -> datetime64[ns])")
            return dates.__pyvc_time__().copy()
        return real_mapdates(dates)

    return stub
