"""Contract cases and the obligations generated from them.

A *case* is one function under contract for one setting of its discrete parameters (method
name, optional argument present or None, inclusivity flags ...).  It declares its inputs
through a factory `mk` - symbolic (proof), concrete on the model (conformance, replay
evaluation) or real numpy (replay, stand-ins) - states `requires`, calls the function, and
gives named postcondition clauses evaluated at an index k, plus `raises` clauses.

Obligations generated per case (names are stable, they do not mention temporaries):
  <case>:no-raise            every feasible path that raises an exception not declared by a
                             `raises` clause is infeasible under `requires` (covers all library
                             safety conditions: index in range, shapes agree, non-empty reductions)
  <case>:raises.E.only-when  a path raising E implies the clause's condition
  <case>:raises.E.whenever   no returning path satisfies the clause's condition
  <case>:frame               no path writes to an argument buffer
  <case>:post.<clause>       on every returning path the clause holds at a Skolem index k
  <case>:cover.*             anti-vacuity: requires + some returning path satisfiable, each raises
                             clause reachable
  <case>:canary              a deliberately false clause must be refuted (else checker failure)
"""
import time
import traceback
from fractions import Fraction

import z3

from . import alg, solve
from . import ctx as C
from .npmodel import Arr, MArr, MaskedConst, from_values, in_range, sym_arr
from .values import SBool, SNum

G, U, S, F, MISS = 1, 2, 3, 4, 9


# ------------------------------------------------------------------ input factories
class SymMk:
    mode = "sym"

    def __init__(self, ctx):
        self.ctx = ctx
        self.decls = []
        self.requires = []
        self.facts = []

    def length(self, name="n", lo=0):
        n = z3.Int(name)
        self.assume(n >= lo)
        self.decls.append(("length", name, n))
        return n

    def series(self, name, n, missing=True):
        a = sym_arr(name, n, "f", nan=missing)
        a.is_input = True
        self.decls.append(("series", name, a))
        return a

    def flags(self, name, n):
        a = sym_arr(name, n, "f", nan=False)
        a.is_input = True
        self.decls.append(("series", name, a))
        return a

    def real(self, name):
        v = SNum(z3.Real(name), False, "pyf")
        self.decls.append(("real", name, v))
        return v

    def integer(self, name):
        v = SNum(z3.Int(name), False, "pyi")
        self.decls.append(("int", name, v))
        return v

    def boolean(self, name):
        v = z3.Bool(name)
        self.decls.append(("bool", name, v))
        return v

    def times(self, name, n, increasing=True):
        """datetime64[ns] axis, whole seconds, strictly increasing: t(i) = 1e9 * s(i)"""
        fs = z3.Function(name + "_sec", z3.IntSort(), z3.IntSort())
        self.ctx.index_funcs.append(fs)
        a = Arr(n, "M", lambda i: (False, alg.mul(fs(alg.lift(i)), 10**9)), "ns", name)
        a.is_input = True
        a.fsec = fs
        if increasing:
            self.fact(name + "-increasing", lambda i: alg.implies(alg.and_(alg.le(0, i), alg.lt(alg.add(i, 1), n)), alg.lt(fs(alg.lift(i)), fs(alg.lift(alg.add(i, 1))))))
        self.decls.append(("times", name, a))
        return a

    def times_ns(self, name, n, min_step_ns=10**9, nat=False):
        """datetime64[ns] axis with nanosecond resolution, consecutive steps >= min_step_ns; nat: stamps may be
        missing (NaT)"""
        fs = z3.Function(name + "_ns", z3.IntSort(), z3.IntSort())
        self.ctx.index_funcs.append(fs)
        if nat:
            fn = z3.Function(name + "_nat", z3.IntSort(), z3.BoolSort())
            self.ctx.index_funcs.append(fn)
            a = Arr(n, "M", lambda i: (fn(alg.lift(i)), fs(alg.lift(i))), "ns", name)
            a.fnat = fn
        else:
            a = Arr(n, "M", lambda i: (False, fs(alg.lift(i))), "ns", name)
        a.is_input = True
        a.fns = fs
        if min_step_ns is not None:
            self.fact(name + "-steps", lambda i: alg.implies(alg.and_(alg.le(0, i), alg.lt(alg.add(i, 1), n)), alg.ge(alg.sub(fs(alg.lift(alg.add(i, 1))), fs(alg.lift(i))), min_step_ns)))
        self.decls.append(("times_ns", name, a))
        return a

    def intseries(self, name, n):
        a = sym_arr(name, n, "i", nan=False)
        a.is_input = True
        self.decls.append(("intseries", name, a))
        return a

    def dtseries(self, name, n):
        """datetime64[ns] values (whole seconds), unordered, NaT allowed"""
        fs = z3.Function(name + "_sec", z3.IntSort(), z3.IntSort())
        fn = z3.Function(name + "_nat", z3.IntSort(), z3.BoolSort())
        self.ctx.index_funcs.extend([fs, fn])
        a = Arr(n, "M", lambda i: (fn(alg.lift(i)), alg.mul(fs(alg.lift(i)), 10**9)), "ns", name)
        a.is_input = True
        a.fsec, a.fnat = fs, fn
        self.decls.append(("dtseries", name, a))
        return a

    def dt(self, name):
        """a datetime64[ns] scalar on a whole second"""
        s_ = z3.Int(name)
        v = SNum(alg.mul(s_, 10**9), False, "M", "ns")
        self.decls.append(("dt", name, s_))
        return v

    def assume(self, f):
        f = alg.lift(f)
        self.requires.append(f)
        self.ctx.solver.add(f)

    def fact(self, name, body):
        self.facts.append(C.Fact(name, body))


class ConcMk:
    """the same declarations, instantiated with concrete values on the model"""

    mode = "conc"

    def __init__(self, values):
        self.values = values
        self.ok = True
        self.facts = []
        self.requires = []

    def length(self, name="n", lo=0):
        n = self.values[name]
        if n < lo:
            self.ok = False
        return n

    def series(self, name, n, missing=True):
        vals = self.values[name]
        assert len(vals) == n, (name, vals, n)
        if not missing and any(v is None for v in vals):
            self.ok = False
        # "inf" / "-inf": the real run gets the infinite value; to the contract it is a missing observation (the
        # tests mask invalid numbers on entry: NaN and +-inf alike)
        a = from_values([None if (v is None or v in ("inf", "-inf")) else Fraction(v) for v in vals], "f")
        a.is_input = True
        a.name = name
        return a

    flags = series

    def real(self, name):
        return SNum(alg.conc(self.values[name]), False, "pyf")

    def integer(self, name):
        return int(self.values[name])

    def boolean(self, name):
        return bool(self.values[name])

    def times(self, name, n, increasing=True):
        secs = self.values[name]
        assert len(secs) == n
        if increasing and any(b <= a for a, b in zip(secs, secs[1:])):
            self.ok = False
        a = from_values([int(s) * 10**9 for s in secs], "M", "ns")
        a.is_input = True
        a.name = name
        a.secs = list(secs)
        return a

    def times_ns(self, name, n, min_step_ns=10**9, nat=False):
        ns = [None if v is None else int(v) for v in self.values[name]]
        assert len(ns) == n
        if not nat and any(v is None for v in ns):
            self.ok = False
        if min_step_ns is not None and any(a is not None and b is not None and b - a < min_step_ns for a, b in zip(ns, ns[1:])):
            self.ok = False
        a = from_values(ns, "M", "ns")
        a.is_input = True
        a.name = name
        a.ns = ns
        return a

    def intseries(self, name, n):
        a = from_values([int(v) for v in self.values[name]], "i")
        a.is_input = True
        a.name = name
        return a

    def dtseries(self, name, n):
        a = from_values([None if v is None else int(v) * 10**9 for v in self.values[name]], "M", "ns")
        a.is_input = True
        a.name = name
        return a

    def dt(self, name):
        return SNum(int(self.values[name]) * 10**9, False, "M", "ns")

    def assume(self, f):
        if alg.is_sym(f):
            f = alg.as_concrete(f)
        if f is not True:
            self.ok = False

    def fact(self, name, body):
        pass


class RealMk:
    """real numpy inputs for calling the unmodified function"""

    mode = "real"

    def __init__(self, values):
        self.values = values
        self.ok = True

    def length(self, name="n", lo=0):
        return self.values[name]

    def series(self, name, n, missing=True):
        import numpy as np

        a = np.array([np.nan if v is None else float(v) for v in self.values[name]], dtype=np.float64)  # float("inf") reads the tokens
        # a grid entry may ask for the real run to receive the same numbers as an array of a narrower type
        # ("dtype": for the data series x; "dtype_<name>" for another series); the model keeps exact reals,
        # so arithmetic carried out in the narrow type shows up as a conformance mismatch
        dt = self.values.get("dtype_" + name) or (self.values.get("dtype") if name == "x" else None)
        if dt:
            b = a.astype(dt)
            if not np.array_equal(b.astype(np.float64), a, equal_nan=True):
                raise AssertionError("grid entry %r is not exactly representable as %s" % (self.values[name], dt))
            a = b
        return a

    def flags(self, name, n, missing=True):
        import numpy as np

        return np.array([np.nan if v is None else float(v) for v in self.values[name]], dtype=np.float64)

    def real(self, name):
        return float(self.values[name])

    def integer(self, name):
        return int(self.values[name])

    def boolean(self, name):
        return bool(self.values[name])

    def times(self, name, n, increasing=True):
        import numpy as np

        return np.array([int(s) * 10**9 for s in self.values[name]], dtype="datetime64[ns]")

    def times_ns(self, name, n, min_step_ns=10**9, nat=False):
        import numpy as np

        return np.array(["NaT" if v is None else int(v) for v in self.values[name]], dtype="datetime64[ns]")

    def intseries(self, name, n):
        import numpy as np

        return np.array([int(v) for v in self.values[name]], dtype=np.int64)

    def dtseries(self, name, n):
        import numpy as np

        return np.array(["NaT" if v is None else int(v) * 10**9 for v in self.values[name]], dtype="datetime64[ns]")

    def dt(self, name):
        import numpy as np

        return np.datetime64(int(self.values[name]) * 10**9, "ns")

    def assume(self, f):
        pass

    def fact(self, name, body):
        pass


# ------------------------------------------------------------------ results
class Pair:
    """results of two executions of the function under contract (relational properties)"""

    def __init__(self, a, b):
        self.a, self.b = a, b


class Res:
    """uniform view of a returned flag array (model MArr/Arr, symbolic or concrete)"""

    def __init__(self, value):
        self.value = value
        self.stats = None
        self.path = None
        self.a = self.b = None
        if isinstance(value, Pair):
            # two executions (self-composition): flags of both, common length from the first
            self.a, self.b = Res(value.a), Res(value.b)
            self.data, self.maskarr = self.a.data, self.a.maskarr
            return
        if isinstance(value, MArr):
            self.data, self.maskarr = value._data, value._mask
        elif isinstance(value, Arr):
            self.data, self.maskarr = value, None
        else:
            self.data = None
            self.maskarr = None

    @property
    def is_array(self):
        return self.data is not None

    @property
    def n(self):
        return self.data.n

    def flag(self, k):
        return self.data.val(k)

    def flagnan(self, k):
        return self.data.nan(k)

    def masked(self, k):
        if self.maskarr is None:
            return False
        return self.maskarr.val(k)


def res_from_numpy(r):
    import numpy as np

    if isinstance(r, np.ma.MaskedArray):
        data = np.asarray(r.data)
        mask = np.ma.getmaskarray(r)
    else:
        data = np.asarray(r)
        mask = None
    if data.ndim != 1:
        return Res(None)
    kind = "f" if data.dtype.kind == "f" else ("b" if data.dtype.kind == "b" else "i")
    vals = [None if (kind == "f" and v != v) else (Fraction(float(v)) if kind == "f" else (bool(v) if kind == "b" else int(v))) for v in data.tolist()]
    d = from_values(vals, kind)
    m = None if mask is None else from_values([bool(x) for x in mask.tolist()], "b")
    return Res(MArr(d, m) if m is not None else d)


# ------------------------------------------------------------------ cases
class Case:
    """subclass per function; `params` are the discrete parameters of this case"""

    module = None  # 'ioos_qc.qartod'
    function = None  # qualname
    prop = None
    index_offsets = (0, -1, 1)
    compare_hidden = False  # conformance: also compare data under the mask

    def __init__(self, **params):
        self.params = params

    @property
    def name(self):
        ps = ",".join("%s=%s" % (k, v) for k, v in sorted(self.params.items()))
        return "%s.%s[%s]" % (self.module.split(".")[-1], self.function, ps)

    # to override -------------------------------------------------------
    def declare(self, mk):
        raise NotImplementedError

    def call(self, mod, env):
        raise NotImplementedError

    def post(self, env, res, k):
        """dict clause name -> formula at index k (0 <= k < n assumed)"""
        return {}

    def post_global(self, env, res):
        """dict clause name -> formula (not index-dependent), e.g. length"""
        return {}

    def raises(self, env):
        """list of (ExceptionType, name, condition formula)"""
        return []

    def canary(self, env, res, k):
        """a clause that must NOT be provable"""
        return alg.eq(res.flag(k), G)

    def stubs(self, T):
        """list of (modname, name, stub) callee contracts to bind for this case"""
        return []

    default_props = {
        "no-raise": ("C01",),
        "frame": ("C01",),
        "post.one_flag_per_element": ("C01",),
        "post.flag_in_alphabet": ("C01",),
        "post.not_masked": ("C01",),
    }
    props = {}

    def props_of(self, short):
        """properties an obligation (by short name) belongs to"""
        if short in self.props:
            return self.props[short]
        return self.default_props.get(short, ())

    def all_props(self):
        out = set()
        for v in list(self.props.values()) + list(self.default_props.values()):
            out.update(v)
        return out

    def regions(self, env, res=None, k=None):
        """named input regions (known findings are scoped by these): name -> formula"""
        return {}

    def concrete_regions(self, values):
        """names of the known-finding regions a concrete input lies in (the bounded stand-in skips
        inputs inside regions that are excluded for this run)"""
        return set()

    def grid(self, tier, rng):
        """concrete value dicts for the conformance run and the bounded stand-in"""
        return []


def _mod_of(T, case):
    return T.module(case.module)


class CaseRun:
    def __init__(self, case, paths, mk, seconds):
        self.case, self.paths, self.mk, self.seconds = case, paths, mk, seconds


def explore_case(T, case, max_paths=400):
    holder = {}

    def run(ctx):
        mk = SymMk(ctx)
        env = case.declare(mk)
        ctx.assumptions.extend(mk.requires)
        holder["mk"] = mk
        mod = _mod_of(T, case)
        undo = [T.stub(m, n, s) for (m, n, s) in case.stubs(T)]

        def thunk():
            try:
                return case.call(mod, env)
            finally:
                for u in undo:
                    u()

        return thunk, (env, mk)

    t0 = time.time()
    paths = C.explore(run, max_paths=getattr(case, "max_paths", max_paths))
    return CaseRun(case, paths, holder["mk"], time.time() - t0)


class ObResult:
    def __init__(self, name, kind):
        self.name = name
        self.kind = kind  # post | no-raise | raises | frame | cover | canary | model-limit
        self.status = "discharged"  # discharged | refuted | undecided | error
        self.solver = ""
        self.seconds = 0.0
        self.queries = 0
        self.detail = ""
        self.model = None  # dict of concrete inputs for replay
        self.size = 0
        self.sample = ""
        self.short = ""
        self.paths = 0
        self.explore_seconds = 0.0

    def to_json(self):
        return {k: getattr(self, k) for k in ("name", "short", "kind", "status", "solver", "seconds", "queries", "detail", "model", "size", "sample", "paths", "explore_seconds")}


def _path_assumptions(path, mk, goal_terms, extra_seeds=()):
    with C.activate(path.ctx):
        return _path_assumptions_(path, mk, goal_terms, extra_seeds)


def _path_assumptions_(path, mk, goal_terms, extra_seeds=()):
    base = list(mk.requires) + list(path.pc) + list(path.aux)
    facts = list(mk.facts) + list(path.facts)
    inst = solve.instantiate(facts, base + [g for g in goal_terms if alg.is_sym(g)], path.index_funcs, seeds=list(path.index_seeds) + list(extra_seeds))
    return base + inst


def _merge(ob, v):
    ob.queries += 1
    ob.seconds += v.seconds
    if v.solver and v.solver not in ob.solver:
        ob.solver = (ob.solver + "+" + v.solver) if ob.solver else v.solver


def _extract_model(model, mk, bound_n=None):
    """concrete input values from a z3 model following the declarations"""
    vals = {}

    def ev(t):
        r = model.eval(alg.lift(t), model_completion=True)
        c = alg.as_concrete(r)
        return c

    lengths = {}
    for kind, name, obj in mk.decls:
        if kind == "length":
            lengths[name] = ev(obj)
            vals[name] = lengths[name]
    for kind, name, obj in mk.decls:
        if kind == "series":
            n = ev(obj.n)
            out = []
            for i in range(n):
                nan, v = obj.elem(z3.IntVal(i))
                if alg.is_sym(nan) or nan is True:
                    isn = ev(nan) if alg.is_sym(nan) else nan
                else:
                    isn = False
                out.append(None if isn else ev(v))
            vals[name] = out
        elif kind == "times":
            n = ev(obj.n)
            vals[name] = [ev(obj.fsec(z3.IntVal(i))) for i in range(n)]
        elif kind == "times_ns":
            n = ev(obj.n)
            fnat = getattr(obj, "__dict__", {}).get("fnat")
            vals[name] = [None if (fnat is not None and ev(fnat(z3.IntVal(i)))) else ev(obj.fns(z3.IntVal(i))) for i in range(n)]
        elif kind == "intseries":
            n = ev(obj.n)
            vals[name] = [ev(obj.fv(z3.IntVal(i))) for i in range(n)]
        elif kind == "dtseries":
            n = ev(obj.n)
            vals[name] = [None if ev(obj.fnat(z3.IntVal(i))) else ev(obj.fsec(z3.IntVal(i))) for i in range(n)]
        elif kind == "dt":
            vals[name] = ev(obj)
        elif kind == "custom":
            vals[name] = obj(ev)
        elif kind in ("real", "int"):
            vals[name] = ev(obj.val)
        elif kind == "bool":
            vals[name] = ev(obj)
    return vals


def jsonable(v):
    if isinstance(v, dict):
        return {k: jsonable(x) for k, x in v.items()}
    if isinstance(v, (list, tuple)):
        return [jsonable(x) for x in v]
    if isinstance(v, Fraction):
        return str(v) if v.denominator != 1 else int(v)
    return v


def unjson(v):
    if isinstance(v, dict):
        return {k: unjson(x) for k, x in v.items()}
    if isinstance(v, list):
        return [unjson(x) for x in v]
    if isinstance(v, str):
        try:
            return Fraction(v)
        except ValueError:
            return v
    return v


def _refute_small(assumptions, neg_goal, mk, timeout_ms):
    """a sat answer: look for a small model first (n <= 1,2,3,4,6,8)"""
    lens = [obj for kind, name, obj in mk.decls if kind == "length"]
    for b in (1, 2, 3, 4, 6, 8, 16):
        # the model must satisfy the quantified requires at every position below the bound
        ground = []
        for fact in mk.facts:
            for i in range(b + 1):
                g = fact.body(z3.IntVal(i))
                if g is not True:
                    ground.append(alg.lift(g))
        fs = assumptions + ground + [neg_goal] + [z3.And(n <= b) for n in lens]
        v, s = solve.check_sat(fs, timeout_ms)
        if v.status == "sat" and v.model is not None:
            return v.model
    return None


class Unlinked:
    """a clause that cannot be phrased for this run (e.g. the code did not compute the statistic the
    clause is stated over).  On a path where the clause is vacuous anyway nothing is lost; otherwise
    the obligation is *undecided* (a limit of the contract, never a violation)"""

    def __init__(self, reason):
        self.reason = reason


def _check_valid(ob, path, mk, goal, timeout_ms, extra_seeds=(), extra=(), unlinked=None):
    """prove goal on one path; updates ob; returns True when discharged"""
    if goal is True:
        return True
    goal = alg.lift(goal)
    if unlinked is not None:
        assumptions = _path_assumptions(path, mk, [goal] + list(extra), extra_seeds) + list(extra)
        v, s = solve.prove(assumptions, goal, timeout_ms)
        _merge(ob, v)
        if v.status == "unsat":
            return True
        ob.status = "undecided"
        ob.detail += " contract not applicable to this code: %s" % unlinked
        return False
    assumptions = _path_assumptions(path, mk, [goal] + list(extra), extra_seeds) + list(extra)
    if not ob.size:
        ob.size = sum(len(a.sexpr()) for a in assumptions) + len(goal.sexpr())
        ob.sample = "(assert (not %s))" % goal.sexpr()[:600]
    v, s = solve.prove(assumptions, goal, timeout_ms)
    _merge(ob, v)
    if v.status == "unsat":
        return True
    if v.status == "sat":
        ob.status = "refuted"
        m = _refute_small([alg.lift(a) for a in assumptions], z3.Not(goal), mk, timeout_ms) or v.model
        try:
            ob.model = jsonable(_extract_model(m, mk)) if m is not None else None
        except Exception as e:  # noqa: BLE001
            ob.detail += " model-extraction-failed: %r" % (e,)
        ob.detail += " path=%s" % ("".join("T" if d else "F" for d in path.decisions),)
        return False
    ob.status = "undecided"
    ob.detail += " unknown(%s)" % v.reason
    return False


def _check_infeasible(ob, path, mk, timeout_ms, why="", extra=()):
    assumptions = _path_assumptions(path, mk, list(extra)) + list(extra)
    v, s = solve.check_sat([alg.lift(a) for a in assumptions], timeout_ms)
    _merge(ob, v)
    if v.status == "unsat":
        return True
    if v.status == "sat":
        ob.status = "refuted"
        m = _refute_small([alg.lift(a) for a in assumptions], z3.BoolVal(True), mk, timeout_ms) or v.model
        try:
            ob.model = jsonable(_extract_model(m, mk)) if m is not None else None
        except Exception as e:  # noqa: BLE001
            ob.detail += " model-extraction-failed: %r" % (e,)
        ob.detail += " %s path=%s" % (why, "".join("T" if d else "F" for d in path.decisions))
        return False
    ob.status = "undecided"
    ob.detail += " unknown(%s)" % v.reason
    return False


def _each(paths):
    """iterate paths with the path's (frozen) context active, so lazily evaluated model closures and
    contract clauses can consult it"""
    for p in paths:
        with C.activate(p.ctx):
            yield p


def _exc_site(exc):
    tb = exc.__traceback__
    site = None
    while tb is not None:
        fn = tb.tb_frame.f_code.co_filename
        if "/ioos_qc/" in fn:
            site = "%s:%d" % (fn.split("/ioos_qc/")[-1], tb.tb_lineno)
        tb = tb.tb_next
    return site or "?"


def verify_case(T, case, timeout_ms=None, want=None, exclude=None):
    """-> list[ObResult]; a contract that cannot be linked to the run (Unsupported raised while the
    postconditions are built, e.g. the code no longer computes the statistic the clause is phrased
    over) makes the whole case undecided - it is a limit of the contract, not a violation"""
    # callee contracts stay bound while the obligations are built: comprehensions over symbolic sequences are
    # answered lazily, so a call they contain may only happen then - it must meet the same callee as during
    # the exploration
    try:
        undo_stubs = [T.stub(m, n, s_) for (m, n, s_) in case.stubs(T)] if not getattr(case, "is_lemma", False) else []
    except Exception:  # noqa: BLE001
        undo_stubs = []
    try:
        return _verify_case(T, case, timeout_ms, want, exclude)
    except C.Unsupported as e:
        ob = ObResult(case.name + ":explore", "error")
        ob.status = "undecided"
        ob.detail = "contract not applicable to this code: %s" % (e,)
        return [ob]
    except Exception as e:  # noqa: BLE001
        # an accident inside contract / model code while the obligations were being built (e.g. a clause that
        # expects the run's median step to be an integer number of nanoseconds): a limit of the contract on
        # this code - undecided, the bounded stand-in takes over.  Anything else is a checker failure.
        if isinstance(e, RecursionError) or "RecursionError" in repr(e):
            # the lazily composed element functions of the model nest deeper than the interpreter allows for this
            # code (long chains of masked views): a resource limit of the model, not a property of the code
            acc = "model recursion depth exceeded"
        else:
            acc = C.internal_error(e)
        if acc is None:
            raise
        ob = ObResult(case.name + ":explore", "error")
        ob.status = "undecided"
        ob.detail = "contract not applicable to this code (accident while building the obligations): %s" % acc
        return [ob]
    finally:
        for u_ in undo_stubs:
            u_()


def _verify_case(T, case, timeout_ms=None, want=None, exclude=None):
    """-> list[ObResult].
    want(short_name) -> bool selects the obligations of the property being checked (short names:
    'no-raise', 'frame', 'raises.<clause>', 'post.<clause>'); covers and the canary always run.
    exclude: dict short_name -> list of region names (known findings): the obligation is proved
    under requires and not(region)."""
    timeout_ms = timeout_ms or solve.QUICK_TIMEOUT_MS
    want = want or (lambda nm: True)
    exclude = exclude or {}
    cname = case.name
    out = []
    solve.reset_caches()
    if getattr(case, "is_lemma", False):
        for nm, assumptions, goal in case.lemmas():
            short = "lemma." + nm
            if not want(short):
                continue
            ob = ObResult("%s:%s" % (cname, short), "lemma")
            ob.short = short
            steps = assumptions if goal is None else [(assumptions, goal)]
            for (asm, gl) in steps:
                v, s_ = solve.prove([alg.lift(a) for a in asm], gl, timeout_ms, cvc5_first=getattr(case, "cvc5_first", False))
                _merge(ob, v)
                if not ob.size:
                    ob.size = len(alg.lift(gl).sexpr())
                    ob.sample = "(assert (not %s))" % alg.lift(gl).sexpr()[:600]
                if gl is False:
                    ob.status = "refuted"
                    ob.detail = "static obligation fails: %s" % getattr(case, "detail", "")
                    break
                if v.status == "sat":
                    ob.status = "refuted"
                    ob.detail = "lemma step refuted: %s" % (str(v.model)[:400] if v.model is not None else "")
                    break
                if v.status != "unsat":
                    ob.status = "undecided"
                    ob.detail = "unknown(%s)" % v.reason
                    break
            out.append(ob)
        return out
    try:
        run = explore_case(T, case)
    except C.Unsupported as e:
        ob = ObResult(cname + ":explore", "error")
        ob.status = "undecided"
        ob.detail = "outside the modelled subset: %s" % (e,)
        return [ob]
    except C.PathLimit as e:
        ob = ObResult(cname + ":explore", "error")
        ob.status = "undecided"
        ob.detail = str(e)
        return [ob]
    paths, mk = run.paths, run.mk
    env = paths[0].env[0]
    rets = [p for p in paths if not p.raised]
    raising = [p for p in paths if p.raised]

    def excl(short, penv, res=None, k=None):
        """extra assumptions: outside every excluded region of this obligation"""
        names = exclude.get(short, [])
        if not names:
            return []
        regs = case.regions(penv, res, k)
        return [alg.lift(alg.not_(regs[r])) for r in names]

    def mkob(short, kind):
        ob = ObResult("%s:%s" % (cname, short), kind)
        ob.short = short
        if exclude.get(short):
            ob.detail = "proved outside known-finding region(s) %s;" % ",".join(exclude[short])
        return ob

    # ---- raises clauses and no-raise
    ob_nr = mkob("no-raise", "no-raise")
    ob_ml = mkob("within-number-model", "model-limit")
    declared = {}
    for p in _each(raising):
        penv = p.env[0]
        rcl = case.raises(penv)
        if isinstance(p.value, C.ModelLimit):
            if not _check_infeasible(ob_ml, p, mk, timeout_ms, "ModelLimit(%s)" % p.value):
                # leaving the number model is never a violation: undecided
                if ob_ml.status == "refuted":
                    ob_ml.status = "undecided"
            continue
        matched = [(E, nm, cond) for (E, nm, cond) in rcl if isinstance(p.value, E)]
        if matched:
            E, nm, cond = matched[0]
            short = "raises.%s.only-when" % nm
            if not want("raises." + nm):
                continue
            ob = declared.setdefault(short, mkob(short, "raises"))
            if ob.status == "discharged":
                _check_valid(ob, p, mk, cond, timeout_ms, extra=excl(short, penv))
            continue
        if want("no-raise") and ob_nr.status == "discharged":
            _check_infeasible(ob_nr, p, mk, timeout_ms, "%s(%s) at %s" % (type(p.value).__name__, str(p.value)[:80], _exc_site(p.value)), extra=excl("no-raise", penv))
    if want("no-raise"):
        ob_nr.queries = max(ob_nr.queries, 1)
        out.append(ob_nr)
    if ob_ml.queries:
        out.append(ob_ml)
    with C.activate(paths[0].ctx):
        clause_list = list(case.raises(env))
    for (E, nm, cond) in clause_list:
        if not want("raises." + nm):
            continue
        short = "raises.%s.only-when" % nm
        declared.setdefault(short, mkob(short, "raises"))
        short2 = "raises.%s.whenever" % nm
        ob2 = mkob(short2, "raises")
        for p in _each(rets):
            (E2, nm2, cond2) = [c for c in case.raises(p.env[0]) if c[1] == nm][0]
            if ob2.status != "discharged":
                break
            _check_valid(ob2, p, mk, alg.not_(cond2), timeout_ms, extra=excl(short2, p.env[0]))
        ob2.queries = max(ob2.queries, 1)
        out.append(ob2)
        # cover: the clause is reachable through a raising path
        obc = mkob("cover.raises.%s" % nm, "cover")
        ok = False
        for p in raising:
            if isinstance(p.value, E):
                v, s = solve.check_sat([alg.lift(a) for a in _path_assumptions(p, mk, [])], timeout_ms)
                _merge(obc, v)
                if v.status == "sat":
                    ok = True
                    break
        if not ok:
            obc.status = "error"
            obc.detail = "raises clause %s is never reached: vacuous" % nm
        out.append(obc)
    for ob in declared.values():
        ob.queries = max(ob.queries, 1)
    out.extend(declared.values())

    # ---- frame, and other obligations read off the notes of a path
    for short, note_kind, what in (("frame", "frame-write", "write to argument buffer"), ("carrier-opaque", "carrier-leak", "operation on the raw input carrier other than the normalisation")):
        if not want(short):
            continue
        ob_fr = mkob(short, "frame")
        for p in _each(paths):
            if any(n[0] == note_kind for n in p.notes) and ob_fr.status == "discharged":
                _check_infeasible(ob_fr, p, mk, timeout_ms, "%s %s" % (what, sorted({str(n[1]) for n in p.notes if n[0] == note_kind})))
        if short == "carrier-opaque" and ob_fr.status == "refuted":
            # the opaque-carrier discipline is a SUFFICIENT condition for carrier independence: code that
            # touches the raw carrier (len(inp) for an early return, a dtype probe, ...) may still be carrier
            # independent.  A feasible leak is therefore undecided; the bounded carrier grid (real carriers
            # on the real code) is what can show a violation
            ob_fr.status = "undecided"
            ob_fr.model = None
            ob_fr.detail = "sufficient condition not met (the bounded carrier grid decides): " + ob_fr.detail
        ob_fr.queries = max(ob_fr.queries, 1)
        out.append(ob_fr)

    # ---- cover: some returning path is feasible
    obc = mkob("cover.returns", "cover")
    ok = any(c[2] is True for c in clause_list)  # contract says: always raises
    for p in ([] if ok else rets):
        v, s = solve.check_sat([alg.lift(a) for a in _path_assumptions(p, mk, [])], timeout_ms)
        _merge(obc, v)
        if v.status == "sat":
            ok = True
            break
    if not ok:
        obc.status = "error"
        obc.detail = "no feasible returning path: requires is contradictory or the function always raises"
    out.append(obc)

    # ---- loop cuts: establishment and preservation of the invariants (all paths)
    lobs = {}
    for p in _each(paths):
        for (phase, lname, n_, goal) in p.loop_obligations:
            ki = z3.Int("k!loop")
            parts = goal(ki)
            seeds = [alg.add(ki, o) for o in case.index_offsets]
            for part, f in parts.items():
                short = "loop.%s.%s.%s" % (lname, phase, part)
                if not want(short):
                    continue
                ob = lobs.setdefault(short, mkob(short, "loop"))
                if ob.status == "discharged":
                    _check_valid(ob, p, mk, alg.implies(in_range(ki, n_), f), timeout_ms, seeds, extra=excl(short, p.env[0]))
    for ob in lobs.values():
        ob.queries = max(ob.queries, 1)
    out.extend(lobs.values())

    # ---- postconditions
    obs = {}
    canary_refuted = False
    any_array = False
    for p in _each(rets):
        penv = p.env[0]
        res = Res(p.value)
        res.stats, res.path = p.stats, p
        glob = case.post_global(penv, res)
        for nm, f in glob.items():
            short = "post." + nm
            if not want(short):
                continue
            ob = obs.setdefault(nm, mkob(short, "post"))
            if ob.status == "discharged":
                _check_valid(ob, p, mk, f, timeout_ms, extra=excl(short, penv))
        if not res.is_array:
            continue
        k = z3.Int("k!post")
        if case.canary(penv, res, k) is not None:
            any_array = True
        seeds = [alg.add(k, o) for o in case.index_offsets]
        inr = in_range(k, res.n)
        for nm, f in case.post(penv, res, k).items():
            short = "post." + nm
            if not want(short):
                continue
            ob = obs.setdefault(nm, mkob(short, "post"))
            hints = []
            if isinstance(f, tuple):  # (formula, sound extra assumptions: spec axioms, fact instances)
                f, hints = f[0], [alg.lift(h) for h in f[1] if h is not True]
            if isinstance(f, Unlinked):
                if ob.status == "discharged":
                    _check_valid(ob, p, mk, alg.implies(inr, False), timeout_ms, seeds, extra=excl(short, penv, res, k), unlinked=f.reason)
                continue
            if ob.status == "discharged":
                _check_valid(ob, p, mk, alg.implies(inr, f), timeout_ms, seeds, extra=excl(short, penv, res, k) + hints)
        if not canary_refuted:
            cn = case.canary(penv, res, k)
            if cn is not None:
                assumptions = _path_assumptions(p, mk, [alg.lift(cn)], seeds)
                v, s = solve.prove(assumptions + [alg.lift(inr)], cn, timeout_ms)
                if v.status == "sat":
                    canary_refuted = True
    for ob in obs.values():
        ob.queries = max(ob.queries, 1)
    out.extend(obs.values())
    obk = mkob("canary", "canary")
    obk.queries = 1
    if any_array and not canary_refuted:
        obk.status = "error"
        obk.detail = "the deliberately false clause was not refuted: the encoding is vacuous"
    out.append(obk)
    for o in out:
        o.explore_seconds = run.seconds
        o.paths = len(paths)
    return out
