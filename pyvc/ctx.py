"""Execution context: path exploration of the *real* function objects.

The code under verification is executed by CPython itself on symbolic proxy
values.  Whenever the real code needs a truth value of a symbolic condition
(`if`, `and`, `or`, `not`, `sorted`, tuple comparison, ...) the proxy's
`__bool__` calls `Ctx.fork`.  A path is identified by its list of decisions;
exploration re-executes the function from the start for every decision prefix
that still has an unexplored alternative (deterministic replay: fresh symbol
names are numbered per run, so a prefix reproduces the same terms).

Library operations that can fail (index out of range, shape mismatch, empty
reduction, ...) fork on their own precondition and raise the real exception
class on the failing side, so `try/except` in the code under test behaves as
in CPython and every feasible raising path shows up as a path outcome.
"""
import contextlib
import time

import z3

from . import alg


class Unsupported(Exception):
    """construct outside the modelled subset: the function is *undecided*"""


class FrameViolation(Exception):
    """raised by the replay harness (never by the code under test): the real call modified one of the
    caller's arrays or parameter objects"""


class ModelLimit(Exception):
    """the path leaves the number model (inf, overflow); see DESIGN T3"""


class PathLimit(Exception):
    pass


_CUR = None


def cur():
    if _CUR is None:
        raise RuntimeError("no active pyvc context")
    return _CUR


def active():
    return _CUR is not None


class Fact:
    """a universally quantified assumption  forall i. body(i)  kept as a closure
    and instantiated at the index terms an obligation mentions"""

    def __init__(self, name, body, arity=1, auto=True):
        self.name = name
        self.body = body
        self.arity = arity
        self.auto = auto  # instantiated automatically at harvested index terms (else only by contract hints)


class Ctx:
    def __init__(self, decisions=(), assumptions=(), check_timeout_ms=4000, prune=True):
        self.decisions = list(decisions)
        self.pos = 0
        self.pc = []
        self.pending = []
        self.counter = 0
        self.facts = []  # universal facts introduced by the run (model axioms)
        self.aux = []  # ground definitional axioms about fresh symbols
        self.used = set()  # library contracts / model rules used on this path
        self.notes = []
        self.index_funcs = []  # uninterpreted input functions (for instantiation)
        self.index_seeds = []  # extra index terms worth instantiating at
        self.unsupported = None
        self.prune = prune
        self.solver = z3.Solver()
        self.solver.set("timeout", check_timeout_ms)
        for a in assumptions:
            self.solver.add(alg.lift(a))
        self.assumptions = list(assumptions)
        self.nforks = 0
        self.branchings = 0  # forks where both sides were feasible
        self.frozen = False  # set after the run: lazily evaluated model closures may still consult the
        # context, but a genuinely two-way fork can no longer be explored

    # ------------------------------------------------------------ naming
    def fresh_name(self, base):
        self.counter += 1
        return "%s!%d" % (base, self.counter)

    def fresh(self, base, sort):
        return z3.Const(self.fresh_name(base), sort)

    def fresh_fun(self, base, *sorts):
        f = z3.Function(self.fresh_name(base), *sorts)
        self.index_funcs.append(f)
        return f

    # ------------------------------------------------------------ assumptions
    def assume(self, t):
        """add a ground axiom about fresh symbols (must be definitional/sound)"""
        t = alg.simp(t) if alg.is_sym(t) else t
        if t is True:
            return
        self.aux.append(alg.lift(t))
        self.solver.add(alg.lift(t))

    def add_fact(self, name, body, arity=1, auto=True):
        self.facts.append(Fact(name, body, arity, auto))

    def use(self, name):
        self.used.add(name)

    # ------------------------------------------------------------ forking
    def _feasible(self, t):
        self.solver.push()
        self.solver.add(t)
        r = self.solver.check()
        self.solver.pop()
        return r != z3.unsat

    def fork(self, cond):
        if not alg.is_sym(cond):
            return bool(cond)
        c = alg.simp(cond)
        if c is True or c is False:
            return c
        self.nforks += 1
        if self.pos < len(self.decisions):
            d = self.decisions[self.pos]
        else:
            if self.prune:
                can_t = self._feasible(c)
                can_f = self._feasible(z3.Not(c))
            else:
                can_t = can_f = True
            if can_t and can_f:
                if self.frozen:
                    raise Unsupported("data-dependent branch while evaluating a postcondition (after the run)")
                self.pending.append(self.decisions[: self.pos] + [False])
                self.branchings += 1
                d = True
            elif can_t:
                d = True
            elif can_f:
                d = False
            else:
                d = True  # path condition itself infeasible; any choice is fine
            self.decisions.append(d)
        self.pos += 1
        t = c if d else z3.Not(c)
        self.pc.append(t)
        self.solver.add(t)
        return d

    def ensure(self, cond, exc_type, msg=""):
        """library precondition: fork, and raise the real exception when it fails"""
        if not self.fork(cond):
            raise exc_type(msg)

    def unsupported_here(self, what):
        self.unsupported = what
        raise Unsupported(what)


@contextlib.contextmanager
def activate(ctx):
    global _CUR
    prev = _CUR
    _CUR = ctx
    try:
        yield ctx
    finally:
        _CUR = prev


class Path:
    """one explored path.  The lists are the context's own (not copies): model objects created
    lazily while a postcondition is evaluated (reduction objects) still register their axioms."""

    def __init__(self, ctx, kind, value, env):
        self.ctx = ctx
        self.pc = ctx.pc
        self.aux = ctx.aux
        self.facts = ctx.facts
        self.used = ctx.used
        self.decisions = list(ctx.decisions)
        self.kind = kind  # 'return' | 'raise'
        self.value = value  # return value or the exception instance
        self.env = env  # whatever the harness's setup returned (symbolic inputs)
        self.index_funcs = ctx.index_funcs
        self.index_seeds = ctx.index_seeds
        self.notes = ctx.notes
        if not hasattr(ctx, "stats"):
            ctx.stats = []
        if not hasattr(ctx, "reductions"):
            ctx.reductions = []
        self.stats = ctx.stats
        self.reductions = ctx.reductions
        if not hasattr(ctx, "loop_obligations"):
            ctx.loop_obligations = []
        self.loop_obligations = ctx.loop_obligations

    @property
    def raised(self):
        return self.kind == "raise"

    def exc_name(self):
        return type(self.value).__name__ if self.raised else None


def explore(run, assumptions=(), max_paths=400, check_timeout_ms=4000, prune=True):
    """run(ctx) -> (thunk, env): `thunk()` calls the real function on symbolic
    inputs built inside the context.  Returns all paths."""
    paths = []
    work = [[]]
    t0 = time.time()
    while work:
        dec = work.pop()
        ctx = Ctx(dec, assumptions=assumptions, check_timeout_ms=check_timeout_ms, prune=prune)
        with activate(ctx):
            thunk, env = run(ctx)
            # setup may add assumptions that depend on fresh symbols
            try:
                v = thunk()
                kind = "return"
            except Unsupported:
                raise
            except ModelLimit as e:
                v, kind = e, "raise"
            except RecursionError:
                raise
            except BaseException as e:  # the code under test raised  # noqa: BLE001
                if ctx.unsupported is not None:
                    raise Unsupported(ctx.unsupported) from e
                acc = internal_error(e)
                if acc is not None:
                    raise Unsupported("accident inside the model, not an exception of the code: " + acc) from e
                v, kind = e, "raise"
            if ctx.unsupported is not None:
                # an Unsupported was swallowed by an `except` of the code under test
                raise Unsupported(ctx.unsupported)
        ctx.frozen = True
        paths.append(Path(ctx, kind, v, env))
        work.extend(ctx.pending)
        if len(paths) > max_paths:
            raise PathLimit("more than %d paths" % max_paths)
    explore.last_seconds = time.time() - t0
    return paths


# ------------------------------------------------------------------ unknown attributes of model objects
_REAL_TYPES = {}


def _real_type(name):
    if name not in _REAL_TYPES:
        try:
            import numpy as np
            import pandas as pd

            table = {
                "numpy.ndarray": np.ndarray, "numpy.ma.MaskedArray": np.ma.MaskedArray, "numpy.float64": np.float64, "numpy.int64": np.int64,
                "numpy.bool_": np.bool_, "numpy.datetime64": np.datetime64, "numpy.timedelta64": np.timedelta64, "float": float, "int": int, "bool": bool,
                "pandas.Series": pd.Series, "pandas.DatetimeIndex": pd.DatetimeIndex, "pandas.Index": pd.Index, "pandas.TimedeltaIndex": pd.TimedeltaIndex,
                "pandas.Timestamp": pd.Timestamp, "pandas.DataFrame": pd.DataFrame, "pandas.core.window.rolling.Rolling": pd.core.window.rolling.Rolling,
                "numpy.dtype": np.dtype, "numpy.ma.core.MaskedConstant": type(np.ma.masked), "builtins.list": list,
            }
            _REAL_TYPES.update(table)
        except Exception:  # noqa: BLE001
            pass
    return _REAL_TYPES.get(name)


def unknown_attr(real_name, attr, internal=()):
    """__getattr__ of a model object for an attribute the model does not define: if the real type does
    not have it either the answer is AttributeError (hasattr probes of the code work as on the real
    object); if the real type has it the model is incomplete - the function is undecided, never
    'raises AttributeError'"""
    if attr.startswith("_") or attr in internal:
        raise AttributeError(attr)
    rt = _real_type(real_name)
    if rt is not None and not hasattr(rt, attr):
        raise AttributeError("'%s' object has no attribute '%s'" % (real_name.split(".")[-1], attr))
    if active():
        cur().unsupported_here("%s.%s is not modelled" % (real_name, attr))
    raise AttributeError(attr)


# ------------------------------------------------------------------ accidents inside the model
_OWN_DIRS = None


def internal_error(e):
    """An exception that Python itself raised inside model / contract code (attribute of None, bad
    operand, missing key ...) - as opposed to one the model raises on purpose with a `raise` statement
    or ensure() because the library would.  Such an accident says nothing about the code under test:
    the caller turns it into Unsupported.  -> description or None"""
    global _OWN_DIRS
    import linecache
    import os

    if _OWN_DIRS is None:
        here = os.path.dirname(os.path.abspath(__file__))
        _OWN_DIRS = (here + os.sep, os.path.join(os.path.dirname(here), "contracts") + os.sep)
    tb = e.__traceback__
    if tb is None:
        return None
    while tb.tb_next is not None:
        tb = tb.tb_next
    fn = os.path.abspath(tb.tb_frame.f_code.co_filename)
    if not fn.startswith(_OWN_DIRS):
        return None
    line = linecache.getline(fn, tb.tb_lineno).strip()
    if line.startswith("raise ") or "ensure(" in line or line.startswith("ensure"):
        return None
    return "%s: %s at %s:%d (%s)" % (type(e).__name__, str(e)[:120], os.path.basename(fn), tb.tb_lineno, line[:80])


# ------------------------------------------------------------------ calls the model's signature does not cover
def guard_signature(f, label):
    """wrap a model function / method: a call with arguments its signature does not accept (an `out=`,
    `axis=`, `order=` ... keyword the model never heard of) is a limit of the model - Unsupported - and
    not the TypeError Python would raise in the frame of the code under test"""
    import functools
    import inspect

    try:
        sig = inspect.signature(f)
    except (TypeError, ValueError):
        return f
    if any(p.kind in (p.VAR_POSITIONAL, p.VAR_KEYWORD) for p in sig.parameters.values()) and all(p.kind in (p.VAR_POSITIONAL, p.VAR_KEYWORD) for p in sig.parameters.values()):
        return f  # accepts anything

    @functools.wraps(f)
    def w(*a, **k):
        try:
            sig.bind(*a, **k)
        except TypeError as e:
            msg = "%s called with arguments the model does not cover (%s)" % (label, e)
            if active():
                cur().unsupported = msg
            raise Unsupported(msg) from None
        return f(*a, **k)

    w.__pyvc_guarded__ = True
    return w


def guard_methods(cls, label):
    """apply guard_signature to the public methods of a model class"""
    import types

    for name, v in list(vars(cls).items()):
        if name.startswith("_") or not isinstance(v, types.FunctionType) or getattr(v, "__pyvc_guarded__", False):
            continue
        setattr(cls, name, guard_signature(v, "%s.%s" % (label, name)))
    return cls
