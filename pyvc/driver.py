"""Check driver: property -> cases -> obligations -> verdict, evidence, replay files."""
import json
import multiprocessing as mp
import os
import random
import re
import sys
import time
import traceback

VERIF = os.path.dirname(os.path.dirname(os.path.abspath(__file__)))
sys.path.insert(0, VERIF)

from pyvc import builtins_model as bm  # noqa: E402
from pyvc import contract, front, replay  # noqa: E402

# PYVC_EVIDENCE_DIR / PYVC_REPLAY_DIR: runs against scratch or seeded trees must not overwrite the
# evidence of the unchanged tree
EVIDENCE_DIR = os.environ.get("PYVC_EVIDENCE_DIR", os.path.join(VERIF, "evidence"))
REPLAY_DIR = os.environ.get("PYVC_REPLAY_DIR", os.path.join(VERIF, "replays"))
KNOWN = os.path.join(VERIF, "known_findings.json")

_T = None


def targets():
    global _T
    if _T is None:
        from pyvc import libmodels, npfuncs, pdmodel

        _T = front.Targets(
            ["ioos_qc.utils", "ioos_qc.qartod", "ioos_qc.argo", "ioos_qc.axds", "ioos_qc.config_creator.fx_parser", "ioos_qc.config_creator.config_creator", "ioos_qc.results", "ioos_qc.config", "ioos_qc.streams", "ioos_qc.stores"],
            np_model=npfuncs.NP,
            pd_model=pdmodel.PD,
            builtins_model=bm.REBOUND,
            extra={"ioos_qc.utils": {"Geodesic": libmodels.Geodesic}},
        )
    return _T


def _sample_grid(grid, lim, rng):
    """a random sample of the grid that always keeps the inputs a case marks with "keep" (hand-placed
    boundary inputs)"""
    keep = [g for g in grid if isinstance(g, dict) and g.get("keep")]
    rest = [g for g in grid if not (isinstance(g, dict) and g.get("keep"))]
    k = max(0, lim - len(keep))
    return keep + (rng.sample(rest, k) if len(rest) > k else rest)


def load_known():
    if not os.path.exists(KNOWN):
        return []
    return json.load(open(KNOWN)).get("findings", [])


def _case_matches(entry, case):
    return case.name.startswith(entry["case"]) or re.fullmatch(entry["case"], case.name) is not None


def run_unit(args):
    """worker: one case for one property"""
    prop, idx, tier, seed, exclude = args
    from contracts import registry

    case = registry.cases_for(prop)[idx]
    T = targets()
    t0 = time.time()
    if tier == "thorough":
        os.environ["PYVC_RECHECK"] = "1"
    from pyvc import solve as _solve

    for k_ in ("unsat", "unknown", "sat"):
        _solve.RECHECK[k_] = 0
    out = {"case": case.name, "function": "%s.%s" % (case.module, case.function), "obligations": [], "conformance": None, "standin": None, "error": None}
    if getattr(case, "is_bounded", False):
        rng = random.Random(seed * 7919 + idx)
        bd = {"evaluations": 0, "violations": [], "labels": {}}
        try:
            for label, region, values, thunk in case.bounded_checks(tier, rng):
                bd["evaluations"] += 1
                bd["labels"][label] = bd["labels"].get(label, 0) + 1
                try:
                    r = thunk()
                except Exception as e:  # noqa: BLE001
                    # the bounded check itself failed: a checker error, never a violation
                    out["error"] = (out["error"] or "") + "bounded check %s crashed on %s: %r\n" % (label, str(values)[:200], e)
                    r = None
                if r is not None and sum(1 for v in bd["violations"] if v["label"] == label) < 2:
                    bd["violations"].append({"label": label, "region": region, "values": contract.jsonable(values), "what": r[:400]})
        except Exception:  # noqa: BLE001
            out["error"] = traceback.format_exc()
        out["bounded"] = bd
        out["seconds"] = time.time() - t0
        return out
    try:
        want = lambda short: prop in case.props_of(short)  # noqa: E731
        timeout = 20000 if tier == "quick" else 120000
        obs = contract.verify_case(T, case, timeout_ms=timeout, want=want, exclude=exclude)
        out["obligations"] = [o.to_json() for o in obs]
        out["used"] = sorted(getattr(case, "_used", []))
        out["recheck"] = dict(_solve.RECHECK)
    except Exception:  # noqa: BLE001
        out["error"] = traceback.format_exc()
    # conformance of the model against the real library on this case's grid
    try:
        rng = random.Random(seed * 7919 + idx)
        grid = list(case.grid(tier, rng))
        lim = int(os.environ.get("PYVC_GRID_LIMIT", "400" if tier == "quick" else "4000"))
        if getattr(case, "grid_limit", None):
            lim = min(lim, case.grid_limit if tier == "quick" else case.grid_limit * 10)
        if len(grid) > lim:
            grid = _sample_grid(grid, lim, rng)
        cf = {"cases": 0, "outside": 0, "mismatches": [], "unsupported": 0}
        st = {"cases": 0, "violations": []}
        undecided = [o for o in out["obligations"] if o["status"] == "undecided"]
        whole = any(o["kind"] == "error" for o in undecided) or bool(out["error"])
        skip_conformance = whole
        if os.environ.get("PYVC_FORCE_STANDIN") or tier == "thorough":
            # evaluate the contract on the REAL code over the whole grid even though everything was proved:
            # the thorough tier's extra depth, and the self-test of the stand-in (a concrete reading of a clause
            # that disagrees with the proved one would otherwise stay latent until a change makes the case
            # undecided)
            undecided = undecided or [{"short": "forced", "kind": "error", "status": "undecided"}]
            whole = True
        for values in grid:
            if not skip_conformance:
                try:
                    r = case.conformance(T, values) if hasattr(case, "conformance") else replay.conform(T, case, values)
                except contract.C.Unsupported as e:
                    r = "unsupported"
                if r == "outside":
                    cf["outside"] += 1
                    continue
                if r == "unsupported":
                    cf["unsupported"] += 1
                else:
                    cf["cases"] += 1
                    if r is not None and len(cf["mismatches"]) < 5:
                        # model and real code disagree on this input: if the REAL run violates a clause of
                        # this property (outside the known-finding regions) the disagreement is a violation
                        # with a concrete input (e.g. a broken callee that the case only knows by contract);
                        # otherwise it is a defect of the model (checker error)
                        mm = {"values": contract.jsonable(values), "what": r, "violated": []}
                        excluded_regions = {r_ for rs in exclude.values() if isinstance(rs, list) for r_ in rs}
                        if not (excluded_regions & set(case.concrete_regions(values))):
                            try:
                                bad, what = replay.replay(case, values)
                                mm["violated"] = [b for b in (bad or []) if prop in case.props_of(_base(b))]
                                mm["violated_other"] = [b for b in (bad or []) if prop not in case.props_of(_base(b))]
                                mm["real"] = what
                            except Exception as e:  # noqa: BLE001
                                mm["real"] = "replay failed: %r" % (e,)
                        cf["mismatches"].append(mm)
            # the same grid is the bounded stand-in for undecided obligations of this case
            if undecided:
                excluded_regions = {r_ for rs in exclude.values() if isinstance(rs, list) for r_ in rs}
                if excluded_regions & set(case.concrete_regions(values)):
                    continue
                bad, what = replay.replay(case, values)
                if bad is None:
                    continue
                st["cases"] += 1
                if whole:
                    hit = [b for b in bad if prop in case.props_of(_base(b))]
                else:
                    hit = [b for b in bad if any(b == o["short"] or o["short"].startswith(b) for o in undecided)]
                if hit and len(st["violations"]) < 3:
                    st["violations"].append({"values": contract.jsonable(values), "violated": hit, "what": what})
        pure_model_defects = [m_ for m_ in cf["mismatches"] if not m_.get("violated") and not m_.get("violated_other")]
        if pure_model_defects and not undecided:
            # the model disagrees with the real code on this tree although the real code satisfies the contract
            # there: the model is wrong about this code (a change brought a construct the model misreads).
            # Nothing proved or refuted with it can be trusted: the case is undecided and the contract is
            # evaluated on the real code over the grid instead
            out["model_unreliable"] = pure_model_defects[0]["what"][:300]
            excluded_regions = {r_ for rs in exclude.values() if isinstance(rs, list) for r_ in rs}
            for values in grid:
                if excluded_regions & set(case.concrete_regions(values)):
                    continue
                bad, what = replay.replay(case, values)
                if bad is None:
                    continue
                st["cases"] += 1
                hit = [b for b in bad if prop in case.props_of(_base(b))]
                if hit and len(st["violations"]) < 3:
                    st["violations"].append({"values": contract.jsonable(values), "violated": hit, "what": what})
            undecided = [{"short": "model-unreliable", "kind": "error", "status": "undecided"}]
        out["conformance"] = cf
        out["standin"] = st if undecided else None
    except Exception:  # noqa: BLE001
        out["error"] = (out["error"] or "") + traceback.format_exc()
    out["seconds"] = time.time() - t0
    return out


def _base(b):
    for suf in (".only-when", ".whenever"):
        if b.endswith(suf):
            return b[: -len(suf)]
    return b


def sanitize(s):
    return re.sub(r"[^A-Za-z0-9_.=-]+", "_", s)[:150]


def write_replay(prop, case, obname, values, extra):
    os.makedirs(REPLAY_DIR, exist_ok=True)
    path = os.path.join(REPLAY_DIR, "%s-%s.json" % (prop, sanitize(obname)))
    doc = {
        "property": prop,
        "obligation": obname,
        "case": {"module": type(case).__module__, "class": type(case).__name__, "params": case.params},
        "function": "%s.%s" % (case.module, case.function),
        "source": front.function_facts(case.module, case.function),
        "values": values,
    }
    doc.update(extra)
    json.dump(doc, open(path, "w"), indent=1, default=str)
    return path


def case_from_replay(doc):
    import importlib

    mod = importlib.import_module(doc["case"]["module"])
    return getattr(mod, doc["case"]["class"])(**doc["case"]["params"])


def do_replay(path):
    doc = json.load(open(path))
    case = case_from_replay(doc)
    if doc.get("bounded_label"):
        r = case.replay_bounded(doc["bounded_label"], contract.unjson(doc["values"]))
        print("function   :", doc["function"])
        print("inputs     :", doc["values"], doc["bounded_label"])
        print("real code  :", r)
        return 1 if r else 0
    if doc.get("values") is None:
        print("replay file carries no input (no-failing-input-found); obligation: %s" % doc["obligation"])
        print(doc.get("solver_output", ""))
        return 2
    values = contract.unjson(doc["values"])
    bad, what = replay.replay(case, values)
    print("function   :", doc["function"])
    print("inputs     :", doc["values"])
    print("real code  :", what)
    print("violated   :", bad)
    return 1 if bad else 0


def check_property(prop, tier="quick", seed=0):
    from contracts import registry

    t0 = time.time()
    spec = registry.PROPS[prop]
    cases = registry.cases_for(prop)
    known = [k for k in load_known() if (k.get("property") == prop or prop in k.get("also", [])) and not k.get("fixed")]
    lines = []
    violations = 0
    known_reported = []
    # known findings: replay the witness; while it still fails the region is excluded
    excludes = []
    for idx, case in enumerate(cases):
        ex = {}
        for kf in known:
            if kf.get("bounded") or getattr(case, "is_bounded", False) or not _case_matches(kf, case):
                continue
            wit = contract.unjson(kf["witness"])
            try:
                bad, what = replay.replay(case, wit)
            except Exception as e:  # noqa: BLE001
                bad, what = None, "witness replay crashed: %r" % (e,)
            if bad and (kf.get("whole_case") or any(b == kf["obligation"] or kf["obligation"].startswith(b) or b.startswith(kf["obligation"]) for b in bad)):
                ex.setdefault(kf["obligation"], []).append(kf["region"])
                if kf.get("whole_case"):
                    ex["__skip__"] = True
                # '.only-when' / '.whenever' variants share the region
                if kf not in known_reported:
                    known_reported.append(kf)
                    lines.append("KNOWN-FINDING: property=%s %s [%s, region %s] witness %s -> %s" % (prop, kf["what"], case.name, kf["region"], json.dumps(kf["witness"]), what))
        excludes.append(ex)
    skipped = [c.name for c, ex in zip(cases, excludes) if ex.get("__skip__")]
    keep = [i for i in range(len(cases)) if not excludes[i].get("__skip__")]
    units = [(prop, i, tier, seed, excludes[i]) for i in keep]
    all_cases_ = cases
    cases = [all_cases_[i] for i in keep]
    nproc = min(int(os.environ.get("PYVC_PROCS", "16")), max(1, len(units)))
    if nproc > 1:
        with mp.get_context("fork").Pool(nproc) as pool:
            results = pool.map(run_unit, units, chunksize=1)
    else:
        results = [run_unit(u) for u in units]

    all_obs = []
    checker_errors = []
    undecided = []
    conf_cases = 0
    standin_cases = 0
    used = set()
    bounded_evals = 0
    bounded_list = []
    all_known = [k for k in load_known() if (k.get("property") == prop or prop in k.get("also", [])) and not k.get("fixed") and k.get("bounded")]
    for case, r in zip(cases, results):
        bd = r.get("bounded")
        if bd:
            bounded_evals += bd["evaluations"]
            bounded_list.append({"case": r["case"], "evaluations": bd["evaluations"], "variants": bd["labels"]})
            for v in bd["violations"]:
                kfs = [k for k in all_known if _case_matches(k, case) and k["region"] == v["region"]]
                if kfs:
                    if kfs[0] not in known_reported:
                        known_reported.append(kfs[0])
                        lines.append("KNOWN-FINDING: property=%s %s [%s, %s] %s" % (prop, kfs[0]["what"], r["case"], v["label"], v["what"][:200]))
                    continue
                path = write_replay(prop, case, r["case"] + ":" + v["label"], v["values"], {"bounded_label": v["label"], "real_code": v["what"], "confirmed": True, "found_by": "bounded check on the real code"})
                lines.append("VIOLATION property=%s replay=%s" % (prop, path))
                lines.append("  bounded check %s %s: %s" % (r["case"], v["label"], v["what"][:300]))
                violations += 1
        if r["error"]:
            checker_errors.append("%s: %s" % (r["case"], r["error"].strip().splitlines()[-1]))
        unreliable = r.get("model_unreliable")
        if unreliable:
            lines.append("  note: %s: the model disagrees with the real code on this tree (%s) although the real code satisfies the contract there; obligations of this case are undecided, the contract was evaluated on the real code over the grid instead" % (r["case"], unreliable[:160]))
        cf = r.get("conformance")
        if cf:
            conf_cases += cf["cases"]
            for mm in cf["mismatches"]:
                if unreliable and not mm.get("violated") and not mm.get("violated_other"):
                    continue
                if mm.get("violated"):
                    path = write_replay(prop, case, r["case"] + ":conformance." + "+".join(mm["violated"]), mm["values"], {"real_code": mm.get("real", ""), "confirmed": True, "found_by": "conformance run (real code on the case's grid): " + mm["what"][:200]})
                    lines.append("VIOLATION property=%s replay=%s" % (prop, path))
                    lines.append("  conformance run %s: real code violates %s on %s" % (r["case"], mm["violated"], mm["values"]))
                    violations += 1
                    continue
                if mm.get("violated_other"):
                    # the real run violates a clause of this contract that belongs to another property: not a
                    # defect of the model, and that property's check reports it
                    lines.append("  note: %s: the real code violates %s (clauses of other properties) on %s" % (r["case"], mm["violated_other"], str(mm["values"])[:160]))
                    continue
                checker_errors.append("conformance mismatch (model vs numpy) in %s on %s: %s" % (r["case"], mm["values"], mm["what"]))
        for o in r["obligations"]:
            # (a failed cover obligation included: with a model that raises on every path - a missing attribute of a
            # model class - "no returning path" says nothing about the code; nothing is counted as proved here)
            if unreliable and o["status"] in ("refuted", "discharged", "error"):
                o = dict(o)
                o["detail"] = "model unreliable on this tree (was %s): %s" % (o["status"], (o.get("detail") or "")[:200])
                o["status"] = "undecided"
            all_obs.append(o)
            if o["status"] == "refuted":
                values = contract.unjson(o["model"]) if o["model"] else None
                confirmed = None
                what = ""
                if values is not None:
                    try:
                        bad, what = replay.replay(case, values)
                        # confirmed when the real code violates a clause of this property on the counter-model
                        confirmed = bool(bad) and any(prop in case.props_of(_base(b)) for b in bad)
                    except Exception as e:  # noqa: BLE001
                        what = "replay crashed: %r" % (e,)
                if not confirmed:
                    # the counter-model lives in an abstraction (havocked loop state, uninterpreted
                    # statistic): search the case's concrete grid for an input that fails on the real code
                    import random as _r

                    grid = list(case.grid(tier, _r.Random(seed)))
                    if len(grid) > 3000:
                        grid = _sample_grid(grid, 3000, _r.Random(seed))
                    for gv in grid:
                        try:
                            gbad, gwhat = replay.replay(case, gv)
                        except Exception:  # noqa: BLE001
                            continue
                        if gbad and any(prop in case.props_of(_base(b)) for b in gbad):
                            o = dict(o)
                            o["model"] = contract.jsonable(gv)
                            o["detail"] += " | solver counter-model not replayable; failing input found by grid search: violates %s" % gbad
                            what, confirmed = gwhat, True
                            break
                type_confusion = re.search(r"\b(TypeError|AttributeError|NotImplementedError|NameError|UnboundLocalError)\(", o.get("detail") or "")
                if not confirmed and o.get("kind") == "no-raise" and type_confusion:
                    # an exception of a type-confusion class on a symbolic path that the real code raises neither on
                    # the counter-model nor on any input of the grid: such errors do not depend on the values of
                    # the data, so this is a gap of the model (an operation of a model object Python could not
                    # resolve), not a violation.  Undecided; the grid search above was its bounded stand-in.
                    o = dict(o)
                    o["status"] = "undecided"
                    o["detail"] = "model gap (%s on a symbolic path, not reproduced by the real code on the counter-model or the grid): %s" % (type_confusion.group(1), o["detail"][:300])
                    undecided.append(o)
                    standin_cases += 1
                    all_obs[-1] = o
                    continue
                if confirmed:
                    path = write_replay(prop, case, o["name"], o["model"], {"solver_output": o["detail"], "real_code": what, "confirmed": True})
                    lines.append("VIOLATION property=%s replay=%s" % (prop, path))
                    lines.append("  obligation %s refuted; real code %s" % (o["name"], what))
                else:
                    path = write_replay(prop, case, o["name"], o["model"], {"solver_output": o["detail"], "real_code": what, "confirmed": False})
                    lines.append("VIOLATION property=%s replay=%s no-failing-input-found" % (prop, path))
                    lines.append("  obligation %s refuted by the solver; the counter-model does not fail on the real code (%s)" % (o["name"], what))
                violations += 1
            elif o["status"] == "undecided":
                undecided.append(o)
            elif o["status"] == "error":
                checker_errors.append("%s: %s" % (o["name"], o["detail"]))
        st = r.get("standin")
        if st:
            standin_cases += st["cases"]
            for v in st["violations"]:
                path = write_replay(prop, case, r["case"] + ":standin." + "+".join(v["violated"]), v["values"], {"real_code": v["what"], "confirmed": True, "found_by": "bounded stand-in"})
                lines.append("VIOLATION property=%s replay=%s" % (prop, path))
                violations += 1

    n_ob = len(all_obs)
    n_dis = sum(1 for o in all_obs if o["status"] == "discharged")
    wall = time.time() - t0
    funcs = sorted({(c.module, c.function) for c in cases})
    facts = []
    for m, f in funcs:
        try:
            facts.append(front.function_facts(m, f))
        except Exception as e:  # noqa: BLE001
            facts.append({"function": "%s.%s" % (m, f), "error": str(e)})
    solvers = {}
    for o in all_obs:
        for s in (o["solver"] or "trivial").split("+"):
            solvers[s] = solvers.get(s, 0) + 1
    ev = {
        "property_id": prop,
        "tier": tier,
        "seed": seed,
        "level": spec["level"],
        "coverage": {
            "obligations": n_ob,
            "discharged": n_dis,
            "checker_cmd": "./check %s %s" % (prop, tier),
            "trusted_base": spec["trusted_base"],
            "explanation": spec["explanation"],
            "functions_under_contract": facts,
            "cases": len(cases),
            "cases_inside_known_finding_regions": skipped,
            "paths_explored": sum(max([o["paths"] for o in r["obligations"]] or [0]) for r in results),
            "solver_seconds": round(sum(o["seconds"] for o in all_obs), 3),
            "explore_seconds": round(sum(max([o["explore_seconds"] for o in r["obligations"]] or [0]) for r in results), 3),
            "back_ends": solvers,
            "cvc5_recheck": {k_: sum((r.get("recheck") or {}).get(k_, 0) for r in results) for k_ in ("unsat", "unknown", "sat")},
            "undecided": [{"name": o["name"], "detail": o["detail"]} for o in undecided],
            "bounded": spec.get("bounded", []),
            "bounded_standin_evaluations": standin_cases,
            "bounded_checks": bounded_list,
            "bounded_evaluations": bounded_evals,
            "conformance": {"cases_model_vs_numpy": conf_cases, "mismatches": sum(len(r["conformance"]["mismatches"]) for r in results if r.get("conformance"))},
            "known_findings": [{"obligation": k.get("obligation", "bounded"), "region": k["region"], "what": k["what"]} for k in known_reported],
            "obligation_list": [{"name": o["name"], "status": o["status"], "solver": o["solver"], "seconds": round(o["seconds"], 4), "queries": o["queries"], "smt_size": o["size"]} for o in all_obs],
            "samples": [{"obligation": o["name"], "negated_goal": o["sample"]} for o in all_obs if o["sample"]][:4] or [{"obligation": o["name"]} for o in all_obs[:3]],
            "evaluations": n_ob + conf_cases + standin_cases + bounded_evals,
            "distinct_nontrivial": n_dis,
            "rule": "one evaluation per named obligation (each covers all lengths and contents symbolically) plus one per concrete conformance / stand-in case; non-trivial = obligations discharged by a solver query",
        },
        "assumptions": spec["assumptions"] + ["known-finding region excluded: %s / %s" % (k.get("obligation", "bounded"), k["region"]) for k in known_reported],
        "wall_s": round(wall, 2),
        "violations": violations,
    }
    os.makedirs(EVIDENCE_DIR, exist_ok=True)
    json.dump(ev, open(os.path.join(EVIDENCE_DIR, prop + ".json"), "w"), indent=1)

    seen_lines = set()
    for ln in lines:
        if ln.startswith("VIOLATION ") and ln in seen_lines:
            continue  # several inputs of one obligation share one replay file: one line
        seen_lines.add(ln)
        print(ln)
    print("%s %s: %d obligations, %d discharged, %d undecided, %d refuted; %d conformance cases; %.1fs" % (prop, tier, n_ob, n_dis, len(undecided), violations, conf_cases, wall))
    for o in undecided:
        print("  UNDECIDED %s %s" % (o["name"], o["detail"]))
    if os.environ.get("PYVC_TIMES"):
        for r in sorted(results, key=lambda r: -r.get("seconds", 0))[:6]:
            print("  TIME %.1fs %s" % (r.get("seconds", 0), r["case"]))
    if violations:
        return 1
    if checker_errors:
        for e in checker_errors[:20]:
            print("CHECKER-ERROR:", e)
        return 3
    if n_ob == 0:
        print("CHECKER-ERROR: zero obligations generated")
        return 3
    if undecided and not standin_cases and not bounded_evals:
        return 2
    return 0


def main(argv):
    import logging

    logging.disable(logging.CRITICAL)  # the library logs skipped tests / duplicate columns; not part of the checks' output
    if len(argv) >= 2 and argv[0] == "--replay":
        return do_replay(argv[1])
    prop = argv[0]
    tier = argv[1] if len(argv) > 1 else os.environ.get("VERIF_TIER", "quick")
    seed = int(os.environ.get("VERIF_SEED", "0"))
    return check_property(prop, tier, seed)


if __name__ == "__main__":
    sys.exit(main(sys.argv[1:]))
