"""Front end: the verified text is the code that runs.

On every run the modules named by the contracts are loaded *from the working tree* of the
repository (PYVC_REPO, default /repo) as private module objects; nothing is cached, copied by
hand or transcribed.  The function objects that are then executed symbolically are the ones
CPython compiled from that source.  The only change made to them is the *binding of free
names*: in the private module's globals `np` / `pd` are bound to the contract models, five
builtins (len, int, float, any, all) to versions that accept symbolic proxies, and the names
imported from other ioos_qc modules to the private copies of those modules (or, per check, to
contract stubs).  Function bodies, decorators, defaults, closures and class bodies are
untouched.  `ast` is used to locate functions, hash their source and report line ranges.
"""
import ast
import hashlib
import importlib.util
import os
import sys
import types

REPO = os.environ.get("PYVC_REPO", "/repo")

_CACHE = {}


def repo_path(modname):
    return os.path.join(REPO, *modname.split(".")) + ".py"


def ensure_repo_importable():
    """make `import ioos_qc` resolve to REPO (the editable install already points at /repo)"""
    if REPO not in sys.path:
        sys.path.insert(0, REPO)
    import ioos_qc

    got = os.path.dirname(os.path.dirname(os.path.abspath(ioos_qc.__file__)))
    if os.path.realpath(got) != os.path.realpath(REPO):
        # a different copy was imported first: drop it and re-import from REPO
        for k in [k for k in sys.modules if k == "ioos_qc" or k.startswith("ioos_qc.")]:
            del sys.modules[k]
        import ioos_qc  # noqa: F811

        got = os.path.dirname(os.path.dirname(os.path.abspath(ioos_qc.__file__)))
        if os.path.realpath(got) != os.path.realpath(REPO):
            raise RuntimeError("cannot import ioos_qc from %s (got %s)" % (REPO, got))


class _ComprehensionRewrite(ast.NodeTransformer):
    """The one source-level rewrite applied before compiling a private module copy:
        [E for x in S]        ->  __pyvc_listcomp__(lambda x: E, S)
        [E for x in S if C]   ->  __pyvc_listcomp__(lambda x: E, S, lambda x: C)
        (E for x in S [if C]) ->  __pyvc_genexp__(lambda x: E, S[, lambda x: C])
        a in b / a not in b   ->  __pyvc_in__(a, b) / not __pyvc_in__(a, b)
        f"..{v}.."            ->  __pyvc_fstr__(["..", (v, "", ""), ".."])
    for comprehensions with exactly one `for`, a plain-name (or tuple of names) target and no
    `await`/walrus.  For real iterables the helpers evaluate the very same comprehension
    (pyvc/seqmodel.py), so the rewrite is semantics-preserving; it exists only so that a symbolic
    sequence can answer a comprehension with a mapped symbolic sequence.  Every other
    comprehension is left as it is."""

    def __init__(self):
        self.count = 0

    def _ok(self, node):
        if len(node.generators) != 1:
            return False
        g = node.generators[0]
        if g.is_async:
            return False
        tgt = g.target
        names = [tgt] if isinstance(tgt, ast.Name) else (list(tgt.elts) if isinstance(tgt, ast.Tuple) else None)
        if names is None or not all(isinstance(n, ast.Name) for n in names):
            return False
        for sub in ast.walk(node):
            if isinstance(sub, (ast.NamedExpr, ast.Await, ast.Yield, ast.YieldFrom)):
                return False
        return True

    def _lam(self, target, body):
        if isinstance(target, ast.Name):
            args = ast.arguments(posonlyargs=[], args=[ast.arg(arg=target.id)], kwonlyargs=[], kw_defaults=[], defaults=[])
            return ast.Lambda(args=args, body=body)
        # tuple target: lambda __t: (lambda a, b: body)(*__t)
        inner = ast.Lambda(args=ast.arguments(posonlyargs=[], args=[ast.arg(arg=n.id) for n in target.elts], kwonlyargs=[], kw_defaults=[], defaults=[]), body=body)
        call = ast.Call(func=inner, args=[ast.Starred(value=ast.Name(id="__pyvc_t", ctx=ast.Load()), ctx=ast.Load())], keywords=[])
        return ast.Lambda(args=ast.arguments(posonlyargs=[], args=[ast.arg(arg="__pyvc_t")], kwonlyargs=[], kw_defaults=[], defaults=[]), body=call)

    def _rewrite(self, node, helper):
        self.generic_visit(node)
        if not self._ok(node):
            return node
        g = node.generators[0]
        args = [self._lam(g.target, node.elt), g.iter]
        if g.ifs:
            cond = g.ifs[0] if len(g.ifs) == 1 else ast.BoolOp(op=ast.And(), values=list(g.ifs))
            args.append(self._lam(g.target, cond))
        self.count += 1
        return ast.copy_location(ast.Call(func=ast.Name(id=helper, ctx=ast.Load()), args=args, keywords=[]), node)

    def visit_Compare(self, node):
        """a in b / a not in b  ->  __pyvc_in__(a, b) / not __pyvc_in__(a, b); a chain whose operators are
        all in / not in and whose inner operands are plain names or attribute accesses is split into the
        conjunction Python defines for it (a in b in c  ==  a in b and b in c).  For real operands the
        helper evaluates `a in b`."""
        self.generic_visit(node)
        if not all(isinstance(o, (ast.In, ast.NotIn)) for o in node.ops):
            return node
        operands = [node.left] + list(node.comparators)
        if len(node.ops) > 1 and not all(isinstance(x, (ast.Name, ast.Attribute)) for x in operands[1:-1]):
            return node
        parts = []
        for i, op in enumerate(node.ops):
            call = ast.Call(func=ast.Name(id="__pyvc_in__", ctx=ast.Load()), args=[operands[i], operands[i + 1]], keywords=[])
            parts.append(ast.UnaryOp(op=ast.Not(), operand=call) if isinstance(op, ast.NotIn) else call)
            self.count += 1
        out = parts[0] if len(parts) == 1 else ast.BoolOp(op=ast.And(), values=parts)
        return ast.copy_location(out, node)

    def visit_JoinedStr(self, node):
        """f"..{v!c:spec}.."  ->  __pyvc_fstr__(["..", (v, "c", spec), ".."]); the helper applies Python's own
        rule  format(conv(v), spec)  and joins, unless a piece is a symbolic string"""
        self.generic_visit(node)
        parts = []
        for v in node.values:
            if isinstance(v, ast.Constant):
                parts.append(v)
            else:
                conv = {-1: "", 115: "s", 114: "r", 97: "a"}[v.conversion]
                spec = v.format_spec if v.format_spec is not None else ast.Constant(value="")
                parts.append(ast.Tuple(elts=[v.value, ast.Constant(value=conv), spec], ctx=ast.Load()))
        self.count += 1
        call = ast.Call(func=ast.Name(id="__pyvc_fstr__", ctx=ast.Load()), args=[ast.List(elts=parts, ctx=ast.Load())], keywords=[])
        return ast.copy_location(call, node)

    def visit_ListComp(self, node):
        return self._rewrite(node, "__pyvc_listcomp__")

    def visit_GeneratorExp(self, node):
        return self._rewrite(node, "__pyvc_genexp__")


def load_private(modname):
    """fresh private copy of a repo module, compiled from the working tree"""
    from . import seqmodel

    ensure_repo_importable()
    path = repo_path(modname)
    name = "pyvc_target." + modname
    src = open(path).read()
    tree = ast.parse(src, filename=path)
    rw = _ComprehensionRewrite()
    tree = ast.fix_missing_locations(rw.visit(tree))
    code = compile(tree, path, "exec")
    mod = types.ModuleType(name)
    mod.__file__ = path
    mod.__pyvc_source__ = path
    mod.__pyvc_rewrites__ = rw.count
    mod.__dict__["__pyvc_listcomp__"] = seqmodel.listcomp
    mod.__dict__["__pyvc_genexp__"] = seqmodel.genexp
    mod.__dict__["__pyvc_in__"] = seqmodel.contains
    from .strmodel import fstr

    mod.__dict__["__pyvc_fstr__"] = fstr
    # function-local `import re` statements are resolved through the module's __builtins__: bind a
    # copy whose __import__ hands out the `re` model (which defers to the real module on real strings)
    import builtins as _b

    from . import strmodel

    bi = dict(_b.__dict__)
    real_import = _b.__import__

    def _import(nm, globals=None, locals=None, fromlist=(), level=0):  # noqa: A002
        if nm == "re" and level == 0 and not fromlist:
            return strmodel.RE
        if level == 0 and fromlist and nm.startswith("ioos_qc.") and ("pyvc_target." + nm) in sys.modules:
            # `from ioos_qc.x import y` inside a function under verification: the private copy of x
            return sys.modules["pyvc_target." + nm]
        return real_import(nm, globals, locals, fromlist, level)

    bi["__import__"] = _import
    mod.__dict__["__builtins__"] = bi
    sys.modules[name] = mod
    exec(code, mod.__dict__)  # noqa: S102
    return mod


class Targets:
    """private copies of the modules under verification with library names rebound"""

    def __init__(self, modnames, np_model=None, pd_model=None, builtins_model=None, extra=None):
        self.mods = {}
        for m in modnames:
            self.mods[m] = load_private(m)
        short = {m.split(".")[-1]: mod for m, mod in self.mods.items()}
        self.__dict__.update(short)
        self.rebound = {}
        for m, mod in self.mods.items():
            rb = []
            g = mod.__dict__
            if np_model is not None and "np" in g:
                g["np"] = np_model
                rb.append("np")
            if pd_model is not None and "pd" in g:
                g["pd"] = pd_model
                rb.append("pd")
            for k, v in (builtins_model or {}).items():
                g[k] = v
                rb.append(k)
            # names imported from other modules under verification -> the private copies
            for k, v in list(g.items()):
                src = getattr(v, "__module__", None)
                if isinstance(v, (types.FunctionType, type)) and src in self.mods and src != m:
                    other = self.mods[src]
                    if hasattr(other, getattr(v, "__name__", k)):
                        g[k] = getattr(other, v.__name__)
                        rb.append(k + "->private " + src)
            for k, v in (extra or {}).get(m, {}).items():
                g[k] = v
                rb.append(k)
            self.rebound[m] = rb

    def module(self, modname):
        return self.mods[modname]

    def stub(self, modname, name, value):
        """temporarily bind a callee to a contract stub; returns an undo callable"""
        g = self.mods[modname].__dict__
        old = g[name]
        g[name] = value

        def undo():
            g[name] = old

        return undo


# ------------------------------------------------------------------ AST facts
def _parse(modname):
    path = repo_path(modname)
    src = open(path).read()
    return src, ast.parse(src, filename=path)


def find_function(modname, qualname):
    """locate a (possibly nested) function or method: 'gross_range_test',
    'ClimatologyConfig.check', 'flat_line_test.<locals>.run_test'"""
    src, tree = _parse(modname)
    node = tree
    for part in qualname.split("."):
        if part == "<locals>":
            continue
        found = None
        for ch in ast.walk(node) if node is not tree else ast.iter_child_nodes(node):
            if isinstance(ch, (ast.FunctionDef, ast.ClassDef, ast.AsyncFunctionDef)) and ch.name == part and ch is not node:
                found = ch
                break
        if found is None:
            raise LookupError("%s.%s not found in %s" % (modname, qualname, repo_path(modname)))
        node = found
    return src, node


def function_facts(modname, qualname):
    src, node = find_function(modname, qualname)
    seg = ast.get_source_segment(src, node)
    first = min([node.lineno] + [d.lineno for d in getattr(node, "decorator_list", [])])
    return {
        "function": "%s.%s" % (modname, qualname),
        "file": os.path.relpath(repo_path(modname), REPO),
        "lines": [first, node.end_lineno],
        "sha256": hashlib.sha256(seg.encode()).hexdigest(),
    }


def global_reads(modname, qualname):
    """names a function reads from module scope (for the purity clause: reads must be constants,
    functions, classes or modules)"""
    src, node = find_function(modname, qualname)
    assigned = set()
    params = set()
    for n in ast.walk(node):
        if isinstance(n, ast.arg):
            params.add(n.arg)
        elif isinstance(n, ast.Name) and isinstance(n.ctx, (ast.Store, ast.Del)):
            assigned.add(n.id)
        elif isinstance(n, (ast.FunctionDef, ast.ClassDef)) and n is not node:
            assigned.add(n.name)
        elif isinstance(n, ast.Global):
            return {"__global_stmt__": n.names}
    reads = set()
    for n in ast.walk(node):
        if isinstance(n, ast.Name) and isinstance(n.ctx, ast.Load) and n.id not in assigned and n.id not in params:
            reads.add(n.id)
    return reads
