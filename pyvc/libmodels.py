"""Contract models of third-party calls other than numpy/pandas."""
import z3

from . import alg
from .ctx import cur
from .values import SNum

_GEOD = z3.Function("geod", z3.RealSort(), z3.RealSort(), z3.RealSort(), z3.RealSort(), z3.RealSort())


def geod_term(y1, x1, y2, x2):
    """WGS84 geodesic distance, uninterpreted: geod(lat1, lon1, lat2, lon2).  Deliberately *not*
    symmetric under lat/lon exchange, so an argument swap at a call site changes the term."""
    def r(v):
        if alg.is_sym(v):
            return z3.ToReal(v) if z3.is_int(v) else v
        v = alg.conc(v)
        return z3.RealVal(str(v))

    return _GEOD(r(y1), r(x1), r(y2), r(x2))


def geod_defined(ny1, y1, nx1, ny2, y2, nx2):
    """the distance is a number iff all four coordinates are numbers and both latitudes lie in
    [-90, 90] (geographiclib returns NaN otherwise; measured, see conformance)"""
    return alg.and_(alg.not_(alg.or_(ny1, nx1, ny2, nx2)), alg.le(alg.abs_(y1), 90), alg.le(alg.abs_(y2), 90))


class _WGS84:
    def Inverse(self, y1, x1, y2, x2):
        c = cur()
        c.use("geographiclib.Geodesic.WGS84.Inverse")
        ps = [SNum.coerce(v) for v in (y1, x1, y2, x2)]
        if any(p is None for p in ps):
            raise TypeError("Geodesic.Inverse argument")
        (ny1, vy1), (nx1, vx1), (ny2, vy2), (nx2, vx2) = [(p[0], p[1]) for p in ps]
        if not any(alg.is_sym(v) for v in (ny1, vy1, nx1, vx1, ny2, vy2, nx2, vx2)):
            # concrete (conformance / replay evaluation): the real library is the reading
            from geographiclib.geodesic import Geodesic

            if ny1 or nx1 or ny2 or nx2:
                return {"s12": SNum(0, True, "pyf")}
            d = Geodesic.WGS84.Inverse(float(vy1), float(vx1), float(vy2), float(vx2))["s12"]
            if d != d:
                return {"s12": SNum(0, True, "pyf")}
            return {"s12": SNum(alg.conc(d), False, "pyf")}
        t = geod_term(vy1, vx1, vy2, vx2)
        c.assume(alg.ge(t, 0))
        nan = alg.not_(geod_defined(ny1, vy1, nx1, ny2, vy2, nx2))
        return {"s12": SNum(t, nan, "pyf")}


class Geodesic:
    WGS84 = _WGS84()


def concrete_geod(y1, x1, y2, x2):
    from geographiclib.geodesic import Geodesic as G

    return G.WGS84.Inverse(float(y1), float(x1), float(y2), float(x2))["s12"]
