"""Loop cuts: `for x in seq` over a symbolic-length sequence, verified by an inductive invariant.

The real `for` statement iterates a CutSeq.  Its iterator performs the classical cut:
  entry     : record the establishment obligation  Inv(0)  on the current loop-carried state;
              if the sequence may be empty, fork on K == 0 (the loop is skipped);
              otherwise havoc the state to an arbitrary one satisfying Inv(j), 0 <= j < K, and
              hand out element j;
  back edge : (the body ran once, possibly through `continue`) record the preservation
              obligation  Inv(j+1),  havoc the state to satisfy Inv(K) and stop the iteration,
              so the code after the loop runs from an arbitrary state satisfying the invariant.
Loop-carried state must live in mutable model objects (arrays mutated in place); the contract
selects them from the frame's locals by kind, not by name.  Invariants are universally
quantified over positions:  inv(state, j, i) -> {part name: formula}.
"""
import sys

import z3

from . import alg
from .ctx import Unsupported, cur
from .npmodel import Arr, MArr, in_range


class LoopCut:
    def __init__(self, name, select_state, inv, assume_parts=None, length_of=None):
        self.name = name
        self.select_state = select_state  # frame locals -> dict name -> array objects
        self.inv = inv  # (state, j, i) -> dict part -> formula
        self.assume_parts = assume_parts  # parts assumed when havocking (None = all)
        self.length_of = length_of  # state -> n (domain of i)


def CutSeq(K, element, cut):
    """symbolic-length sequence iterated by a `for` statement under a loop cut"""
    from .seqmodel import SymSeq

    return SymSeq(K, element, cut, cut.name)


def cut_iterator(seq):
    # frame 0: this function, 1: SymSeq.__iter__, 2: the function under verification
    cut = seq.cut
    cut.entries = getattr(cut, "entries", 0)
    it = _CutIter(seq, sys._getframe(2), cut.entries)
    cut.entries += 1
    return it


def _hook(what, fn, *a):
    """run a contract hook; its own failure (e.g. the state it looks for is not there after a harmless edit
    of the code) is a limit of the contract - undecided - never an exception of the code under test"""
    from .ctx import ModelLimit, PathLimit

    try:
        return fn(*a)
    except (Unsupported, ModelLimit, PathLimit):
        raise
    except Exception as ex:  # noqa: BLE001
        cur().unsupported_here("contract hook %s failed: %r" % (what, ex))
        raise Unsupported("contract hook %s failed: %r" % (what, ex)) from None


def _snapshot(state):
    out = {}
    for k, v in state.items():
        out[k] = v.copy()
    return out


def _havoc(ctx, state, cut, j, tag, inv=None):
    """replace the contents of every state array by fresh symbols constrained by Inv(j)"""
    for name, a in state.items():
        data = a._data if isinstance(a, MArr) else a
        kind = data.kind
        if kind == "b":
            f = ctx.fresh_fun("hv_" + tag, z3.IntSort(), z3.BoolSort())
            data._elem = (lambda f: lambda i: (False, f(alg.lift(i))))(f)
        elif kind == "f":
            f = ctx.fresh_fun("hv_" + tag, z3.IntSort(), z3.RealSort())
            g = ctx.fresh_fun("hvn_" + tag, z3.IntSort(), z3.BoolSort())
            data._elem = (lambda f, g: lambda i: (g(alg.lift(i)), f(alg.lift(i))))(f, g)
        else:
            f = ctx.fresh_fun("hv_" + tag, z3.IntSort(), z3.IntSort())
            data._elem = (lambda f: lambda i: (False, f(alg.lift(i))))(f)
        data._memo = {}
        if isinstance(a, MArr) and a._mask is not None:
            m = ctx.fresh_fun("hvm_" + tag, z3.IntSort(), z3.BoolSort())
            a._mask._elem = (lambda m: lambda i: (False, m(alg.lift(i))))(m)
            a._mask._memo = {}
    snap = _snapshot(state)
    n = cut.length_of(snap)
    parts = cut.assume_parts

    inv = inv or cut.inv

    def body(i):
        d = inv(snap, j, i)
        fs = [f for k, f in d.items() if parts is None or k in parts]
        return alg.implies(in_range(i, n), alg.and_(*fs))

    ctx.add_fact("loop-invariant(%s,%s)" % (cut.name, tag), body)


class _CutIter:
    def __init__(self, seq, frame, entry=0):
        self.seq = seq
        self.frame = frame
        self.phase = 0
        self.entry = entry  # how many times this loop has been entered before (nested loops)

    def __iter__(self):
        return self

    def _inv(self, state, j, i):
        cut = self.seq.cut
        cut.entry = self.entry
        return cut.inv(state, j, i)

    def __next__(self):
        ctx = cur()
        seq, cut = self.seq, self.seq.cut
        if not hasattr(ctx, "loop_obligations"):
            ctx.loop_obligations = []
        if self.phase == 0:
            self.phase = 1
            if getattr(cut, "pre_hook", None):
                # custom cut (state inside containers): the contract's hook builds the arbitrary prior
                # state itself; establishment is the contract's business (initially empty containers)
                if ctx.fork(alg.eq(seq.K, 0)):
                    self.phase = 2
                    raise StopIteration
                j = ctx.fresh("j_" + cut.name, z3.IntSort())
                ctx.assume(alg.and_(alg.le(0, j), alg.lt(j, seq.K)))
                self.j = j
                if not hasattr(ctx, "ghost"):
                    ctx.ghost = {}
                ctx.ghost.setdefault("cut_index", {})[cut.name] = j
                _hook('pre_hook', cut.pre_hook, self.frame.f_locals, j)
                self.state = _hook('select_state', cut.select_state, self.frame.f_locals)
                if self.state:
                    _havoc(ctx, self.state, cut, j, "pre", self._inv)
                return seq.at(j)
            self.state = _hook('select_state', cut.select_state, self.frame.f_locals)
            if not self.state and not getattr(cut, "stateless", False):
                ctx.unsupported_here("loop cut %s: no loop-carried state found" % cut.name)
            snap = _snapshot(self.state)
            n = cut.length_of(snap)
            entry = self.entry
            cut.entry = entry
            if self.state:
                ctx.loop_obligations.append(("establish" + (str(entry) if cut.entries > 1 or entry else ""), cut.name, n, lambda i, snap=snap: self._inv(snap, 0, i)))
            if ctx.fork(alg.eq(seq.K, 0)):
                self.phase = 2
                raise StopIteration
            j = ctx.fresh("j_" + cut.name, z3.IntSort())
            ctx.assume(alg.and_(alg.le(0, j), alg.lt(j, seq.K)))
            self.j = j
            if not hasattr(ctx, "ghost"):
                ctx.ghost = {}
            ctx.ghost.setdefault("cut_index", {})[cut.name] = j
            if getattr(cut, "on_enter", None):
                _hook('on_enter', cut.on_enter, self.frame.f_locals, j)
            _havoc(ctx, self.state, cut, j, "pre", self._inv)
            return seq.at(j)
        if self.phase == 1:
            self.phase = 2
            if getattr(cut, "pre_hook", None):
                self.state = _hook('select_state', cut.select_state, self.frame.f_locals)
            if getattr(cut, "step", None):
                # transition obligations: relate the state after one arbitrary iteration to the state before
                for nm, f in _hook('step', cut.step, self.frame.f_locals, self.j).items():
                    ctx.loop_obligations.append(("step", cut.name, 1, lambda i, nm=nm, f=f: {nm: f}))
            snap = _snapshot(self.state)
            n = cut.length_of(snap)
            j1 = alg.add(self.j, 1)
            if self.state:
                ctx.loop_obligations.append(("preserve" + (str(self.entry) if self.entry else ""), cut.name, n, lambda i, snap=snap: self._inv(snap, j1, i)))
            if getattr(cut, "post_hook", None):
                _hook('post_hook', cut.post_hook, self.frame.f_locals)
                self.state = _hook('select_state', cut.select_state, self.frame.f_locals)
            if self.state:
                _havoc(ctx, self.state, cut, seq.K, "post", self._inv)
            raise StopIteration
        raise StopIteration
