"""Loop cuts: `for x in seq` over a symbolic-length sequence, verified by an inductive invariant.

The real `for` statement iterates a CutSeq.  Its iterator performs the classical cut:
  entry     : record the establishment obligation  Inv(0)  on the current loop-carried state;
              if the sequence may be empty, fork on K == 0 (the loop is skipped);
              otherwise havoc the state to an arbitrary one satisfying Inv(j), 0 <= j < K, and
              hand out element j;
  back edge : (the body ran once, possibly through `continue`) record the preservation
              obligation  Inv(j+1),  havoc the state to satisfy Inv(K) and stop the iteration,
              so the code after the loop runs from an arbitrary state satisfying the invariant.
Loop-carried state must live in mutable model objects (arrays mutated in place); the contract
selects them from the frame's locals by kind, not by name.  Invariants are universally
quantified over positions:  inv(state, j, i) -> {part name: formula}.
"""
import sys

import z3

from . import alg
from .ctx import Unsupported, cur
from .npmodel import Arr, MArr, in_range


class LoopCut:
    def __init__(self, name, select_state, inv, assume_parts=None, length_of=None):
        self.name = name
        self.select_state = select_state  # frame locals -> dict name -> array objects
        self.inv = inv  # (state, j, i) -> dict part -> formula
        self.assume_parts = assume_parts  # parts assumed when havocking (None = all)
        self.length_of = length_of  # state -> n (domain of i)


def CutSeq(K, element, cut):
    """symbolic-length sequence iterated by a `for` statement under a loop cut"""
    from .seqmodel import SymSeq

    return SymSeq(K, element, cut, cut.name)


def cut_iterator(seq):
    # frame 0: this function, 1: SymSeq.__iter__, 2: the function under verification
    cut = seq.cut
    cut.entries = getattr(cut, "entries", 0)
    # the entry number (nested loops: which pass over the sequence this is) is assigned when the iteration
    # turns out to be one over the contract's state; auxiliary loops over the same sequence (shape checks,
    # an appending loop) are not counted
    return _CutIter(seq, sys._getframe(2), None)


def _hook(what, fn, *a):
    """run a contract hook; its own failure (e.g. the state it looks for is not there after a harmless edit
    of the code) is a limit of the contract - undecided - never an exception of the code under test"""
    from .ctx import ModelLimit, PathLimit

    try:
        return fn(*a)
    except (Unsupported, ModelLimit, PathLimit):
        raise
    except Exception as ex:  # noqa: BLE001
        cur().unsupported_here("contract hook %s failed: %r" % (what, ex))
        raise Unsupported("contract hook %s failed: %r" % (what, ex)) from None


def _snapshot(state):
    out = {}
    for k, v in state.items():
        out[k] = v.copy()
    return out


def _havoc(ctx, state, cut, j, tag, inv=None):
    """replace the contents of every state array by fresh symbols constrained by Inv(j)"""
    for name, a in state.items():
        data = a._data if isinstance(a, MArr) else a
        kind = data.kind
        if kind == "b":
            f = ctx.fresh_fun("hv_" + tag, z3.IntSort(), z3.BoolSort())
            data._elem = (lambda f: lambda i: (False, f(alg.lift(i))))(f)
        elif kind == "f":
            f = ctx.fresh_fun("hv_" + tag, z3.IntSort(), z3.RealSort())
            g = ctx.fresh_fun("hvn_" + tag, z3.IntSort(), z3.BoolSort())
            data._elem = (lambda f, g: lambda i: (g(alg.lift(i)), f(alg.lift(i))))(f, g)
        else:
            f = ctx.fresh_fun("hv_" + tag, z3.IntSort(), z3.IntSort())
            data._elem = (lambda f: lambda i: (False, f(alg.lift(i))))(f)
        data._memo = {}
        if isinstance(a, MArr) and a._mask is not None:
            m = ctx.fresh_fun("hvm_" + tag, z3.IntSort(), z3.BoolSort())
            a._mask._elem = (lambda m: lambda i: (False, m(alg.lift(i))))(m)
            a._mask._memo = {}
    snap = _snapshot(state)
    n = cut.length_of(snap)
    parts = cut.assume_parts

    inv = inv or cut.inv

    def body(i):
        d = inv(snap, j, i)
        fs = [f for k, f in d.items() if parts is None or k in parts]
        return alg.implies(in_range(i, n), alg.and_(*fs))

    ctx.add_fact("loop-invariant(%s,%s)" % (cut.name, tag), body)


class _CutIter:
    def __init__(self, seq, frame, entry=0):
        self.seq = seq
        self.frame = frame
        self.phase = 0
        self.entry = entry  # how many times this loop has been entered before (nested loops)

    def __iter__(self):
        return self

    def _inv(self, state, j, i):
        cut = self.seq.cut
        cut.entry = self.entry
        return cut.inv(state, j, i)

    def _frame_guard(self, ctx, cut, containers=True):
        """everything one iteration hands to the next must be cut state (see the end of this module)"""
        node = _for_node(self.frame)
        if node is None:
            ctx.unsupported_here("loop cut %s: the `for` statement was not found in the source" % cut.name)
        names = [n for n in carried_names(node) if n not in getattr(cut, "carried_ok", ())]
        if names:
            ctx.unsupported_here("loop cut %s: local(s) %s carry a value from one iteration to the next outside the cut's invariant" % (cut.name, ", ".join(names)))
        self.marks = _container_marks(dict(self.frame.f_locals), self.state) if containers else None

    def _frame_check(self, ctx, cut):
        if getattr(self, "marks", None):
            ch = _changed_containers(self.marks, self.state)
            if ch:
                ctx.unsupported_here("loop cut %s: the iteration changed container(s) %s that are not part of the cut's state" % (cut.name, ", ".join(ch)))

    def __next__(self):
        ctx = cur()
        seq, cut = self.seq, self.seq.cut
        if not hasattr(ctx, "loop_obligations"):
            ctx.loop_obligations = []
        if self.phase == 0:
            self.phase = 1
            if getattr(cut, "pre_hook", None) and self.entry is None:
                self.entry = cut.entries
                cut.entries += 1
            if getattr(cut, "pre_hook", None):
                # custom cut (state inside containers): the contract's hook builds the arbitrary prior
                # state itself; establishment is the contract's business (initially empty containers)
                if ctx.fork(alg.eq(seq.K, 0)):
                    self.phase = 2
                    raise StopIteration
                j = ctx.fresh("j_" + cut.name, z3.IntSort())
                ctx.assume(alg.and_(alg.le(0, j), alg.lt(j, seq.K)))
                self.j = j
                if not hasattr(ctx, "ghost"):
                    ctx.ghost = {}
                ctx.ghost.setdefault("cut_index", {})[cut.name] = j
                self._frame_guard(ctx, cut, containers=False)
                _hook('pre_hook', cut.pre_hook, self.frame.f_locals, j)
                self.state = _hook('select_state', cut.select_state, self.frame.f_locals)
                if self.state:
                    _havoc(ctx, self.state, cut, j, "pre", self._inv)
                return seq.at(j)
            self.state = _hook('select_state', cut.select_state, self.frame.f_locals)
            if not self.state and not getattr(cut, "stateless", False):
                # a loop over the cut sequence that does not touch the contract's state (not the loop the
                # invariant is about): the appending loop is answered as the comprehension it spells; a loop
                # whose body neither branches on symbolic data, nor raises, nor changes anything (a check
                # such as `assert v.ndim == 1` that holds outright) has no effect for any number of elements
                if try_append_loop(seq, self.frame):
                    self.phase = 2
                    raise StopIteration
                self._frame_guard(ctx, cut)
                self.noop_probe = (ctx.branchings, len(ctx.pc), len(ctx.notes))
                j = ctx.fresh("j_" + cut.name, z3.IntSort())
                if ctx.fork(alg.eq(seq.K, 0)):
                    self.phase = 2
                    raise StopIteration
                self.noop_probe = (ctx.branchings, len(ctx.pc), len(ctx.notes))
                ctx.assume(alg.and_(alg.le(0, j), alg.lt(j, seq.K)))
                self.phase = 3
                return seq.at(j)
            if self.entry is None:
                self.entry = cut.entries
                cut.entries += 1
            self._frame_guard(ctx, cut)
            snap = _snapshot(self.state)
            n = cut.length_of(snap)
            entry = self.entry
            cut.entry = entry
            if self.state:
                ctx.loop_obligations.append(("establish" + (str(entry) if cut.entries > 1 or entry else ""), cut.name, n, lambda i, snap=snap: self._inv(snap, 0, i)))
            if ctx.fork(alg.eq(seq.K, 0)):
                self.phase = 2
                raise StopIteration
            j = ctx.fresh("j_" + cut.name, z3.IntSort())
            ctx.assume(alg.and_(alg.le(0, j), alg.lt(j, seq.K)))
            self.j = j
            if not hasattr(ctx, "ghost"):
                ctx.ghost = {}
            ctx.ghost.setdefault("cut_index", {})[cut.name] = j
            if getattr(cut, "on_enter", None):
                _hook('on_enter', cut.on_enter, self.frame.f_locals, j)
            _havoc(ctx, self.state, cut, j, "pre", self._inv)
            return seq.at(j)
        if self.phase == 3:
            # end of the probe iteration of a loop without state: it must have been a no-op
            self.phase = 2
            self._frame_check(ctx, cut)
            nf, npc, nn = self.noop_probe
            if ctx.branchings != nf or len(ctx.notes) != nn:
                ctx.unsupported_here("loop cut %s: a loop without loop-carried state whose body branches on symbolic data" % cut.name)
            raise StopIteration
        if self.phase == 1:
            self.phase = 2
            self._frame_check(ctx, cut)
            if getattr(cut, "pre_hook", None):
                self.state = _hook('select_state', cut.select_state, self.frame.f_locals)
            if getattr(cut, "step", None):
                # transition obligations: relate the state after one arbitrary iteration to the state before
                for nm, f in _hook('step', cut.step, self.frame.f_locals, self.j).items():
                    ctx.loop_obligations.append(("step", cut.name, 1, lambda i, nm=nm, f=f: {nm: f}))
            snap = _snapshot(self.state)
            n = cut.length_of(snap)
            j1 = alg.add(self.j, 1)
            if self.state:
                ctx.loop_obligations.append(("preserve" + (str(self.entry) if self.entry else ""), cut.name, n, lambda i, snap=snap: self._inv(snap, j1, i)))
            if getattr(cut, "post_hook", None):
                _hook('post_hook', cut.post_hook, self.frame.f_locals)
                self.state = _hook('select_state', cut.select_state, self.frame.f_locals)
            if self.state:
                _havoc(ctx, self.state, cut, seq.K, "post", self._inv)
            raise StopIteration
        raise StopIteration


# ------------------------------------------------------------------ frame of the loop body
# The cut is sound only if everything one iteration hands to the next is part of the havocked state.
# Two guards make that an obligation of every run instead of an assumption about the code:
#   * carried names (static, on the source of the running `for` statement): a local that is assigned in
#     the body and may be read in the body before it is assigned carries a value from one iteration to
#     the next (or from before the loop into a later iteration) - the single symbolic iteration would see
#     the pre-loop value only.  Unless the cut declares the name as handled, the case is undecided.
#   * mutated containers (dynamic, on the symbolic iteration): a list / dict / set / model array that
#     existed before the loop, is not part of the declared state and was changed by the iteration.
import ast as _ast  # noqa: E402

_FOR_CACHE = {}


def _for_node(frame):
    code = frame.f_code
    key = (code.co_filename, frame.f_lineno)
    if key in _FOR_CACHE:
        return _FOR_CACHE[key]
    try:
        tree = _ast.parse(open(code.co_filename).read())
    except (OSError, SyntaxError):
        _FOR_CACHE[key] = None
        return None
    best = None
    for n in _ast.walk(tree):
        if isinstance(n, _ast.For) and n.lineno <= frame.f_lineno <= getattr(n.iter, "end_lineno", n.lineno):
            if best is None or n.lineno >= best.lineno:
                best = n
    _FOR_CACHE[key] = best
    return best


def _target_names(t):
    return {n.id for n in _ast.walk(t) if isinstance(n, _ast.Name) and isinstance(n.ctx, (_ast.Store, _ast.Del))}


def _loads(node):
    """names read by an expression (or whole statement), not counting names bound inside it by
    comprehensions and lambda parameters"""
    if node is None:
        return set()
    out = set()

    def visit(n, bound):
        if isinstance(n, _ast.Name):
            if isinstance(n.ctx, _ast.Load) and n.id not in bound:
                out.add(n.id)
            return
        if isinstance(n, (_ast.ListComp, _ast.SetComp, _ast.GeneratorExp, _ast.DictComp)):
            b = set(bound)
            for g in n.generators:
                visit(g.iter, b)
                b |= _target_names(g.target)
                for c in g.ifs:
                    visit(c, b)
            for part in ([n.key, n.value] if isinstance(n, _ast.DictComp) else [n.elt]):
                visit(part, b)
            return
        if isinstance(n, _ast.Lambda):
            a = n.args
            b = set(bound) | {x.arg for x in a.posonlyargs + a.args + a.kwonlyargs} | ({a.vararg.arg} if a.vararg else set()) | ({a.kwarg.arg} if a.kwarg else set())
            for d in a.defaults + [k for k in a.kw_defaults if k is not None]:
                visit(d, bound)
            visit(n.body, b)
            return
        for c in _ast.iter_child_nodes(n):
            visit(c, bound)

    visit(node, set())
    return out


def _exposed(stmts, defined):
    """-> (names that may be read before they are assigned, names definitely assigned afterwards,
    whether control can fall through the end of the statement list)"""
    exp = set()
    d = set(defined)
    for s in stmts:
        if isinstance(s, (_ast.Continue, _ast.Break)):
            return exp, d, False
        if isinstance(s, (_ast.Return, _ast.Raise)):
            exp |= _loads(s) - d
            return exp, d, False
        if isinstance(s, _ast.Assign):
            exp |= _loads(s.value) - d
            for t in s.targets:
                if not isinstance(t, _ast.Name):
                    exp |= _loads(t) - d
            for t in s.targets:
                d |= _target_names(t)
        elif isinstance(s, _ast.AugAssign):
            exp |= _loads(s.value) - d
            if isinstance(s.target, _ast.Name):
                if s.target.id not in d:
                    exp.add(s.target.id)
                d.add(s.target.id)
            else:
                exp |= _loads(s.target) - d
        elif isinstance(s, _ast.AnnAssign):
            exp |= _loads(s.value) - d
            if s.value is not None:
                d |= _target_names(s.target)
        elif isinstance(s, _ast.If):
            exp |= _loads(s.test) - d
            e1, d1, f1 = _exposed(s.body, d)
            e2, d2, f2 = _exposed(s.orelse, d)
            exp |= e1 | e2
            if not f1 and not f2:
                return exp, d, False
            d = d2 if not f1 else (d1 if not f2 else d1 & d2)
        elif isinstance(s, (_ast.For, _ast.AsyncFor)):
            exp |= _loads(s.iter) - d
            e1, _, _ = _exposed(s.body, d | _target_names(s.target))
            e2, _, _ = _exposed(s.orelse, d)
            exp |= e1 | e2
        elif isinstance(s, _ast.While):
            exp |= _loads(s.test) - d
            e1, _, _ = _exposed(s.body, d)
            e2, _, _ = _exposed(s.orelse, d)
            exp |= e1 | e2
        elif isinstance(s, (_ast.With, _ast.AsyncWith)):
            for it in s.items:
                exp |= _loads(it.context_expr) - d
                if it.optional_vars is not None:
                    d |= _target_names(it.optional_vars)
            e1, d1, f1 = _exposed(s.body, d)
            exp |= e1
            # a context manager may swallow an exception: only what was assigned before the body is certain;
            # what the body assigns is certain when it ran to its end - keep it (no repo code relies on less)
            d = d1
            if not f1:
                return exp, d, False
        elif isinstance(s, _ast.Try) or s.__class__.__name__ == "TryStar":
            e1, d1, _ = _exposed(s.body, d)
            exp |= e1
            for h in s.handlers:
                exp |= _loads(h.type) - d
                eh, _, _ = _exposed(h.body, d | ({h.name} if h.name else set()))
                exp |= eh
            e2, _, _ = _exposed(s.orelse, d1)
            e3, _, _ = _exposed(s.finalbody, d)
            exp |= e2 | e3
        elif isinstance(s, (_ast.FunctionDef, _ast.AsyncFunctionDef, _ast.ClassDef)):
            exp |= _loads(s) - d - {s.name}
            d.add(s.name)
        elif isinstance(s, (_ast.Import, _ast.ImportFrom)):
            for a in s.names:
                d.add((a.asname or a.name).split(".")[0])
        else:  # Expr, Assert, Delete, Match, ...
            exp |= _loads(s) - d
    return exp, d, True


def carried_names(fornode):
    assigned = set()
    for s in fornode.body:
        for n in _ast.walk(s):
            if isinstance(n, _ast.Name) and isinstance(n.ctx, _ast.Store):
                assigned.add(n.id)
            elif isinstance(n, (_ast.FunctionDef, _ast.ClassDef)):
                assigned.add(n.name)
    # names bound only inside comprehensions are not locals of the frame
    exp, _, _ = _exposed(fornode.body, _target_names(fornode.target))
    return sorted(exp & assigned)


def _container_marks(loc, state):
    """shallow fingerprints of the mutable containers among a frame's locals that are not cut state"""
    ids = set()
    for a in (state or {}).values():
        ids.add(id(a))
        if isinstance(a, MArr):
            ids.add(id(a._data))
            if a._mask is not None:
                ids.add(id(a._mask))
    marks = {}
    for name, v in loc.items():
        if id(v) in ids:
            continue
        if isinstance(v, list):
            marks[name] = (v, ("list", [id(x) for x in v]))
        elif isinstance(v, dict):
            marks[name] = (v, ("dict", [(id(k), id(x)) for k, x in v.items()]))
        elif isinstance(v, set):
            marks[name] = (v, ("set", sorted(id(x) for x in v)))
        elif isinstance(v, MArr):
            marks[name] = (v, ("marr", id(v._data._elem), id(v._mask._elem) if v._mask is not None else None))
        elif isinstance(v, Arr):
            marks[name] = (v, ("arr", id(v._elem)))
    return marks


def _changed_containers(marks, state):
    cur_ = _container_marks({n: v for n, (v, _) in marks.items()}, state)
    return sorted(n for n, (v, m) in marks.items() if n in cur_ and cur_[n][1] != m)


# ------------------------------------------------------------------ the appending loop
def try_append_loop(seq, frame):
    """`for x in S: L.append(E)` over a symbolic sequence, L an empty list made before the loop, E an
    expression of x and of names the loop does not assign: the loop spelling of the comprehension
    [E for x in S].  It is answered like the comprehension (pyvc/seqmodel.listcomp): L is rebound to
    the mapped symbolic sequence and the body is not iterated.  Recognised syntactically on the source
    of the running `for` statement; anything else is not touched (-> Unsupported by the caller).
    -> True when applied"""
    import ctypes

    from . import front, seqmodel

    node = _for_node(frame)
    if node is None or node.orelse or len(node.body) != 1 or not isinstance(node.target, _ast.Name):
        return False
    st = node.body[0]
    if not (isinstance(st, _ast.Expr) and isinstance(st.value, _ast.Call)):
        return False
    call = st.value
    f = call.func
    if not (isinstance(f, _ast.Attribute) and f.attr == "append" and isinstance(f.value, _ast.Name) and len(call.args) == 1 and not call.keywords and not isinstance(call.args[0], _ast.Starred)):
        return False
    lname, target, expr = f.value.id, node.target.id, call.args[0]
    loc = frame.f_locals
    lst = loc.get(lname)
    if type(lst) is not list or len(lst) != 0:
        return False
    if lname in _loads(expr) or carried_names(node):
        return False
    # the loop variable must not be read after the loop (it stays unbound here)
    try:
        tree = _ast.parse(open(frame.f_code.co_filename).read())
    except (OSError, SyntaxError):
        return False
    fn = None
    for n in _ast.walk(tree):
        if isinstance(n, (_ast.FunctionDef, _ast.AsyncFunctionDef)) and n.lineno <= node.lineno <= (n.end_lineno or n.lineno):
            if fn is None or n.lineno >= fn.lineno:
                fn = n
    if fn is None:
        return False
    lo_, hi_ = node.lineno, node.end_lineno or node.lineno
    # other constructs that bind the same name again (their own reads of it are fine)
    rebinders = []
    for n in _ast.walk(fn):
        if isinstance(n, (_ast.For, _ast.comprehension)) and target in _target_names(n.target):
            if isinstance(n, _ast.For) and not (n.lineno == node.lineno):
                rebinders.append((n.lineno, n.end_lineno or n.lineno))
    for n in _ast.walk(fn):
        if isinstance(n, _ast.Name) and n.id == target and isinstance(n.ctx, _ast.Load) and not (lo_ <= n.lineno <= hi_):
            if any(a <= n.lineno <= b for a, b in rebinders):
                continue
            if any(isinstance(c, (_ast.ListComp, _ast.SetComp, _ast.GeneratorExp, _ast.DictComp)) and any(target in _target_names(g.target) for g in c.generators) and c.lineno <= n.lineno <= (c.end_lineno or c.lineno) for c in _ast.walk(fn)):
                continue
            return False
    lam = _ast.Lambda(args=_ast.arguments(posonlyargs=[], args=[_ast.arg(arg=target)], kwonlyargs=[], kw_defaults=[], defaults=[]), body=expr)
    lam = front._ComprehensionRewrite().visit(_ast.fix_missing_locations(_ast.Expression(body=lam)))
    g = dict(frame.f_globals)
    g.update(loc)
    fun = eval(compile(_ast.fix_missing_locations(lam), frame.f_code.co_filename, "eval"), g)  # noqa: S307
    mapped = seqmodel.listcomp(fun, seq)
    loc[lname] = mapped
    ctypes.pythonapi.PyFrame_LocalsToFast(ctypes.py_object(frame), ctypes.c_int(0))
    cur().use("appending loop over a symbolic sequence answered as the comprehension it spells")
    return True
