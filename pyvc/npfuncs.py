"""The `np` namespace bound into the modules under verification (numpy contract model)."""
import contextlib
import types

import z3

from . import alg
from . import npmodel as M
from .ctx import ModelLimit, Unsupported, cur
from .npmodel import Arr, Arr2, MArr, View, masked
from .values import SBool, SNum, raw


def _n_of_shape(shape):
    if isinstance(shape, tuple):
        if len(shape) != 1:
            raise Unsupported("array creation with %d dims" % len(shape))
        shape = shape[0]
    return raw(shape)


def _nonneg(n):
    if alg.is_sym(n):
        cur().ensure(alg.ge(n, 0), ValueError, "negative dimensions are not allowed")
    elif n < 0:
        raise ValueError("negative dimensions are not allowed")


def np_array(x, dtype=None, copy=True, subok=False):
    if subok and isinstance(x, MArr):
        r = x.copy() if copy else x
        return r
    return M._as_arr(x, dtype, copy=copy)


def np_asarray(x, dtype=None):
    return M._as_arr(x, dtype, copy=False)


def _arr2_const(shape, value):
    r, c = raw(shape[0]), raw(shape[1])
    return Arr2(r, c, lambda i, j: (False, value))


def np_zeros(shape, dtype=float):
    if isinstance(shape, tuple) and len(shape) == 2:
        return _arr2_const(shape, 0)
    n = _n_of_shape(shape)
    _nonneg(n)
    d = M.dtype_of(dtype)
    return M.const_arr(n, d.kind, (False, False if d.kind == "b" else 0), d.unit).copy()


def np_ones(shape, dtype=float):
    if isinstance(shape, tuple) and len(shape) == 2:
        return _arr2_const(shape, 1)
    n = _n_of_shape(shape)
    _nonneg(n)
    d = M.dtype_of(dtype)
    return M.const_arr(n, d.kind, (False, True if d.kind == "b" else 1), d.unit).copy()


def np_full(shape, fill_value, dtype=None):
    n = _n_of_shape(shape)
    _nonneg(n)
    if dtype is None:
        kind = M._scalar_kind(fill_value)
    else:
        kind = M.dtype_of(dtype).kind
    p = M._cast_pair(M._scalar_pair(fill_value), kind)
    return M.const_arr(n, kind, p).copy()


def np_empty(shape, dtype=float):
    """uninitialised memory: fresh unconstrained symbols (havoc)"""
    if isinstance(shape, tuple) and len(shape) == 2:
        r, c = raw(shape[0]), raw(shape[1])
        f = cur().fresh_fun("empty2", z3.IntSort(), z3.IntSort(), z3.RealSort())
        return Arr2(r, c, lambda i, j: (False, f(alg.lift(i), alg.lift(j))))
    n = _n_of_shape(shape)
    _nonneg(n)
    d = M.dtype_of(dtype)
    return _havoc_arr(n, d.kind, d.unit)


def _havoc_arr(n, kind, unit=None):
    c = cur()
    if kind == "b":
        f = c.fresh_fun("empty", z3.IntSort(), z3.BoolSort())
        return Arr(n, kind, lambda i: (False, f(alg.lift(i))), unit)
    if kind == "f":
        f = c.fresh_fun("empty", z3.IntSort(), z3.RealSort())
        g = c.fresh_fun("emptynan", z3.IntSort(), z3.BoolSort())
        return Arr(n, kind, lambda i: (g(alg.lift(i)), f(alg.lift(i))), unit)
    f = c.fresh_fun("empty", z3.IntSort(), z3.IntSort())
    return Arr(n, kind, lambda i: (False, f(alg.lift(i))), unit)


def _raw_carrier_leak(a, what):
    if hasattr(a, "__pyvc_array__") and not isinstance(a, (Arr, MArr)) and not hasattr(a, "values_arr") and not hasattr(a, "arr"):
        from .carriers import _leak

        _leak(what)


def np_ones_like(a, dtype=None, subok=True):
    _raw_carrier_leak(a, "np.ones_like(raw carrier)")
    if subok not in (True, False):
        raise Unsupported("ones_like(subok=%r)" % (subok,))
    d = M.dtype_of(dtype) if dtype is not None else a.dtype
    if isinstance(a, MArr):
        if subok:
            raise Unsupported("ones_like of masked array")
        a = a._data
    a = M._as_arr(a, copy=False)
    return M.const_arr(a.n, d.kind, (False, True if d.kind == "b" else 1), d.unit).copy()


def np_full_like(a, fill_value, dtype=None, subok=True):
    if subok not in (True, False):
        raise Unsupported("full_like(subok=%r)" % (subok,))
    if isinstance(a, (dict, type(None))) and dtype is bool:
        # np.full_like(<not an array>, 1, dtype=bool) is the 0-d array(True); it broadcasts in `&`
        # and, used as an index, adds an axis (pandas refuses it)
        return bool(fill_value)
    if isinstance(a, MArr):
        if subok:
            raise Unsupported("full_like of masked array")
        a = a._data  # subok=False: a plain array of the same shape and (unless dtype is given) element type
    a = M._as_arr(a, copy=False)
    d = M.dtype_of(dtype) if dtype is not None else a.dtype
    p = M._cast_pair(M._scalar_pair(fill_value), d.kind)
    return M.const_arr(a.n, d.kind, p, d.unit).copy()


def np_copy(a):
    if isinstance(a, MArr):
        # np.copy(masked) returns an ndarray copy unless subok
        return a._data.copy()
    return M._as_arr(a, copy=True)


def _ufunc1(op):
    def f(x):
        if hasattr(x, "__pyvc_array__"):
            x = x.__pyvc_array__()
        if isinstance(x, MArr):
            return M.ma_ufunc1(op, x)
        if isinstance(x, Arr):
            return M.ew_unop(op, x)
        if isinstance(x, M.MaskedConst):
            return True if op == "isnan" and False else _masked_unary(op)
        if isinstance(x, SNum):
            p = M.pair_unop(op, (x.nan, x.val), M._scalar_kind(x))
            if op in ("isnan", "isfinite"):
                return SBool(p[1])
            return SNum(p[1], p[0], x.kind if x.kind not in ("pyi", "pyf") else {"pyi": "i", "pyf": "f"}[x.kind], x.unit)
        if M.is_scalar(x):
            p0 = M._scalar_pair(x)
            p = M.pair_unop(op, p0, M._scalar_kind(x))
            if op in ("isnan", "isfinite"):
                return SBool(p[1])
            return SNum(p[1], p[0], M._scalar_kind(x))
        if isinstance(x, (list, tuple)):
            return f(M._as_arr(x))
        raise Unsupported("np.%s(%r)" % (op, type(x)))

    return f


def _masked_unary(op):
    return masked


np_abs = _ufunc1("abs")
np_sign = _ufunc1("sign")
np_isnan = _ufunc1("isnan")
np_isfinite = _ufunc1("isfinite")


def np_minimum(a, b):
    if isinstance(a, MArr) or isinstance(b, MArr):
        return M.ma_ufunc2("minimum", a, b)
    if isinstance(a, Arr) or isinstance(b, Arr):
        n1, k1, g1 = M._operand(a)
        n2, k2, g2 = M._operand(b)
        n, (m1, m2) = M.broadcast([n1, n2])
        return Arr(n, "f" if "f" in (k1, k2) else k1, lambda i: M.pair_op("minimum", g1(m1(i)), g2(m2(i)), k1, k2))
    raise Unsupported("np.minimum of scalars")


def np_diff(a, n=1):
    if n != 1:
        raise Unsupported("diff order")
    if isinstance(a, (list, tuple)):
        a = M._as_arr(a)
    if hasattr(a, "__pyvc_array__") and not isinstance(a, (Arr, MArr)):
        from .carriers import _leak

        _leak("np.diff(raw carrier)")
        a = a.__pyvc_array__()
    if not isinstance(a, (Arr, MArr)):
        raise Unsupported("np.diff(%r)" % (type(a),))
    hi = a[1:]
    lo = a[:-1]
    if isinstance(a, MArr):
        # subtract ufunc through __array_wrap__: raw data, union mask
        d1, d0 = hi._data.getter(), lo._data.getter()
        k = a.kind
        rk = "m" if k == "M" else k
        ln = hi._data.n
        data = Arr(ln, rk, lambda i: M.pair_op("sub", d1(i), d0(i), k, k), a.unit)
        if a._mask is not None:
            m1, m0 = hi._mask.getter(), lo._mask.getter()
            mask = Arr(ln, "b", lambda i: (False, alg.or_(m1(i)[1], m0(i)[1])))
        else:
            mask = M.const_arr(ln, "b", (False, False)).copy()
        return MArr(data, mask)
    k = a.kind
    if k == "b":
        raise Unsupported("diff of bool")
    d1, d0 = hi.getter(), lo.getter()
    rk = "m" if k == "M" else k
    out = Arr(hi.n, rk, lambda i: M.pair_op("sub", d1(i), d0(i), k, k), a.unit)
    # ghost: the differences telescope (their sum is last - first); used by np.mean / np.sum facts
    src = a.getter()
    out.telescopes = (a.n, src)
    return out


def np_where(cond, *rest):
    if rest:
        raise Unsupported("np.where with 3 arguments")
    if isinstance(cond, MArr):
        return cond.nonzero()
    if isinstance(cond, Arr):
        return cond.nonzero()
    raise Unsupported("np.where(%r)" % (type(cond),))


class Stat:
    """record of an uninterpreted statistic applied by the code (np.mean/std/ptp/median...)"""

    def __init__(self, name, arg, value, extra=None):
        self.name, self.arg, self.value, self.extra = name, arg, value, extra


def _stats():
    c = cur()
    if not hasattr(c, "stats"):
        c.stats = []
    return c.stats


_G0 = z3.Int("generic!i")


def stable_key(a):
    """structural key of an array argument: two arrays with identical length and element terms at a
    generic index are equal, so an uninterpreted statistic applied to them must return the same value"""
    if isinstance(a, MArr):
        mk = a.m(_G0)
        return ("m", stable_key(a._data), mk.sexpr() if alg.is_sym(mk) else str(mk))
    n = a.n
    p = a.elem(_G0)
    return (z3.simplify(n).sexpr() if alg.is_sym(n) else str(n), a.kind) + tuple(z3.simplify(x).sexpr() if alg.is_sym(x) else str(x) for x in p)


def memo_symbol(key, make):
    """one symbol per (statistic, arguments) within a run: statistics are functions of their arguments"""
    c = cur()
    if not hasattr(c, "fun_memo"):
        c.fun_memo = {}
    if key not in c.fun_memo:
        c.fun_memo[key] = make()
    return c.fun_memo[key]


_SPEC_COUNTER = [0]


def spec_const(base, sort):
    """globally fresh constant for specification-side Skolem objects"""
    _SPEC_COUNTER[0] += 1
    return z3.Const("%s!spec%d" % (base, _SPEC_COUNTER[0]), sort)


def _present_count(a):
    """(n_present term, present(i)) of a 1-D array argument of a statistic"""
    if isinstance(a, MArr):
        mg = a._mask.getter() if a._mask is not None else (lambda i: (False, False))
        cnt = M.count_true(a.n, lambda i: alg.not_(mg(i)[1]), "present")
        return cnt
    return a.n


def _concrete_values(a):
    """list of (nan, val) when the array is fully concrete, else None"""
    n = alg.as_concrete(a.n)
    if n is None:
        return None
    out = []
    for i in range(n):
        nan, v = a.elem(i)
        nan = alg.as_concrete(nan) if alg.is_sym(nan) else nan
        v = alg.as_concrete(v) if alg.is_sym(v) else v
        if nan is None or v is None:
            return None
        out.append((nan, v))
    return out


def _fr(x):
    from fractions import Fraction

    return Fraction(x)


def np_mean(a):
    """np.mean of a plain ndarray: uninterpreted real (NaN for an empty array or NaN element)"""
    if isinstance(a, MArr):
        raise Unsupported("np.mean of masked array")
    a = M._as_arr(a, copy=False)
    cv = _concrete_values(a)
    if cv is not None:
        if not cv or any(p[0] for p in cv):
            return SNum(0, True, "f")
        return SNum(alg.conc(sum(_fr(p[1]) for p in cv) / len(cv)), False, "f")
    c = cur()
    c.use("numpy.mean")
    v = memo_symbol(("mean", stable_key(a)), lambda: c.fresh("mean", z3.RealSort()))
    g = a.getter()
    if a.kind == "f":
        hasnan = M.reduce_any(Arr(a.n, "b", lambda i: (False, g(i)[0])), None).t
    else:
        hasnan = False
    nan = alg.or_(alg.eq(a.n, 0), hasnan)
    if a.kind in ("m", "M"):
        vi = memo_symbol(("mean-int", stable_key(a)), lambda: c.fresh("meant", z3.IntSort()))
        s = SNum(vi, nan, a.kind, a.unit)
    else:
        s = SNum(v, nan, "f")
        tel = getattr(a, "telescopes", None)
        if tel is not None:
            # mean(diff(x)) = (x[n-1] - x[0]) / (n - 1): over the reals (T3) the mean step has the sign of
            # last - first.  Only the sign facts are stated (linear); the value stays uninterpreted.
            n0, src = tel
            d = alg.sub(src(alg.sub(n0, 1))[1], src(0)[1])
            c.use("numpy.mean of numpy.diff: sign of the mean step = sign of last - first (telescoping sum over the reals)")
            c.assume(alg.implies(alg.and_(alg.ge(n0, 2), alg.not_(nan)), alg.and_(alg.iff(alg.gt(v, 0), alg.gt(d, 0)), alg.iff(alg.lt(v, 0), alg.lt(d, 0)))))
    _stats().append(Stat("mean", a.copy(), s))
    return s


def np_median(a):
    """median of a timedelta array: an abstract value m with the facts min <= m <= max
    (expressed pointwise: if all elements equal d then m == d); NaT for empty input"""
    a = M._as_arr(a, copy=False) if not isinstance(a, MArr) else a
    if isinstance(a, MArr):
        raise Unsupported("np.median of masked array")
    cv = _concrete_values(a)
    if cv is not None:
        if not cv or any(p[0] for p in cv):
            return SNum(0, True, a.kind, a.unit)
        vs = sorted(_fr(p[1]) for p in cv)
        m = vs[len(vs) // 2] if len(vs) % 2 else (vs[len(vs) // 2 - 1] + vs[len(vs) // 2]) / 2
        if a.kind in ("m", "M", "i", "u"):
            m = int(m) if m == int(m) else (m.numerator // m.denominator)  # timedelta mean of two ints truncates
        return SNum(alg.conc(m), False, a.kind, a.unit)
    c = cur()
    c.use("numpy.median")
    sort = z3.IntSort() if a.kind != "f" else z3.RealSort()
    v = memo_symbol(("median", stable_key(a)), lambda: c.fresh("median", sort))
    g = a.getter()
    n = a.n
    # facts: some element <= m and some element >= m; m is bounded by every element pairwise only
    # through: (forall i. x[i] == d) -> m == d, instantiated as lo/hi witnesses
    wlo = c.fresh("medlo", z3.IntSort())
    whi = c.fresh("medhi", z3.IntSort())
    c.assume(alg.implies(alg.gt(n, 0), alg.and_(M.in_range(wlo, n), M.in_range(whi, n), alg.le(g(wlo)[1], v), alg.le(v, g(whi)[1]))))
    c.index_seeds.extend([wlo, whi])
    nan = alg.eq(n, 0)
    if a.kind == "f":
        nan = alg.or_(nan, M.reduce_any(Arr(n, "b", lambda i: (False, g(i)[0])), None).t)
    s = SNum(v, nan, a.kind, a.unit)
    _stats().append(Stat("median", a.copy(), s))
    return s


def _spread(name, a, ddof_note):
    """np.std / np.ptp of a whole series: uninterpreted non-negative real of the present values.
    masked array: `masked` when no value is present; ndarray: NaN for NaN elements, ptp of an empty
    array raises ValueError, std of an empty array is NaN"""
    c = cur()
    c.use("numpy.%s" % name)
    cv = _concrete_values(a._data if isinstance(a, MArr) else M._as_arr(a, copy=False))
    if cv is not None:
        return _concrete_spread(name, a, cv)
    if isinstance(a, MArr):
        cnt = _present_count(a)
        if M._fork(alg.eq(cnt, 0)):
            if name == "ptp" and M._fork(alg.eq(a.n, 0)):
                raise ValueError("zero-size array to reduction operation maximum which has no identity")
            _stats().append(Stat(name, a.copy(), masked, ddof_note))
            return masked
        v = memo_symbol((name, stable_key(a)), lambda: c.fresh(name, z3.RealSort()))
        c.assume(alg.ge(v, 0))
        s = SNum(v, False, "f")
        _stats().append(Stat(name, a.copy(), s, ddof_note))
        return s
    a = M._as_arr(a, copy=False)
    if name == "ptp":
        cur().ensure(alg.gt(a.n, 0), ValueError, "zero-size array to reduction operation maximum which has no identity")
    g = a.getter()
    v = memo_symbol((name, stable_key(a)), lambda: c.fresh(name, z3.RealSort()))
    c.assume(alg.ge(v, 0))
    nan = alg.eq(a.n, 0)
    if a.kind == "f":
        nan = alg.or_(nan, M.reduce_any(Arr(a.n, "b", lambda i: (False, g(i)[0])), None).t)
    s = SNum(v, nan, "f")
    _stats().append(Stat(name, a.copy(), s, ddof_note))
    return s


def _concrete_spread(name, a, cv):
    import math

    if isinstance(a, MArr):
        mk = [bool(alg.as_concrete(a.m(i)) if alg.is_sym(a.m(i)) else a.m(i)) for i in range(len(cv))]
        vals = [p for p, m in zip(cv, mk) if not m]
        if not vals:
            if name == "ptp" and not cv:
                raise ValueError("zero-size array to reduction operation maximum which has no identity")
            return masked
    else:
        vals = cv
        if name == "ptp" and not cv:
            raise ValueError("zero-size array to reduction operation maximum which has no identity")
        if not cv:
            return SNum(0, True, "f")
    if any(p[0] for p in vals):
        return SNum(0, True, "f")
    xs = [_fr(p[1]) for p in vals]
    if name == "ptp":
        return SNum(alg.conc(max(xs) - min(xs)), False, "f")
    mu = sum(xs) / len(xs)
    var = sum((x - mu) ** 2 for x in xs) / len(xs)
    r = math.sqrt(var)
    return SNum(alg.conc(r), False, "f")


def np_std(a, *args, **kw):
    if args or kw:
        raise Unsupported("np.std with arguments")
    return _spread("std", a, "ddof=0")


def np_ptp(a, *args, **kw):
    if args or kw:
        raise Unsupported("np.ptp with arguments")
    return _spread("ptp", a, None)


def np_insert(arr, obj, values):
    """np.insert(arr, 0, values): concatenation values ++ arr (only obj == 0 is modelled)"""
    if raw(obj) != 0 or isinstance(arr, MArr):
        raise Unsupported("np.insert at %r" % (obj,))
    a = M._as_arr(arr, copy=False)
    v = M._as_arr(values, copy=False)
    ga, gv = a.getter(), v.getter()
    nv = v.n
    kind = a.kind
    return Arr(alg.add(a.n, nv), kind, lambda i: _pick(alg.lt(i, nv), M._cast_pair(gv(i), kind), ga(alg.sub(i, nv))))


def np_concatenate(arrays, axis=0, **k):
    """np.concatenate of two 1-D plain arrays of the same kind (the np.insert(arr, 0, values) spelling)"""
    if k or raw(axis) != 0 or not isinstance(arrays, (list, tuple)) or len(arrays) != 2:
        raise Unsupported("np.concatenate pattern")
    if any(isinstance(a, MArr) for a in arrays):
        raise Unsupported("np.concatenate of masked arrays")
    a, b = (M._as_arr(x, copy=False) for x in arrays)
    if a.kind != b.kind:
        raise Unsupported("np.concatenate of kinds %s and %s" % (a.kind, b.kind))
    ga, gb, na = a.getter(), b.getter(), a.n
    return Arr(alg.add(na, b.n), a.kind, lambda i: _pick(alg.lt(i, na), ga(i), gb(alg.sub(i, na))), a.unit)


def _pick(c, a, b):
    return (alg.ite(c, a[0], b[0]), alg.ite(c, a[1], b[1]))


def as_strided(a, shape=None, strides=None):
    """window view w[r, c] = a[r + c]; only the (itemsize, itemsize) stride pattern of
    rolling_window is modelled.  Reads beyond the buffer are an obligation at the use site."""
    if isinstance(a, MArr):
        a = a._data  # as_strided drops the mask (plain ndarray view of the data)
    if len(shape) != 2 or len(strides) != 2 or raw(strides[0]) != raw(strides[1]) or raw(strides[0]) != a.strides[0]:
        raise Unsupported("as_strided pattern")
    g = a.getter()
    rows, cols = raw(shape[0]), raw(shape[1])
    n = a.n
    c = cur()
    c.use("numpy.lib.stride_tricks.as_strided")
    oob = c.fresh_fun("oob", z3.IntSort(), z3.RealSort())
    oobn = c.fresh_fun("oobnan", z3.IntSort(), z3.BoolSort())

    def elem(r, cc):
        j = alg.add(r, cc)
        inb = M.in_range(j, n)
        if inb is False:
            return (oobn(alg.lift(j)), oob(alg.lift(j)))
        if inb is True:
            return g(j)
        e = g(j)
        # out-of-buffer reads see arbitrary memory
        return (alg.ite(inb, e[0], oobn(alg.lift(j))), alg.ite(inb, e[1], oob(alg.lift(j))))

    if alg.is_sym(rows):
        c.ensure(alg.ge(rows, 0), ValueError, "negative dimensions are not allowed")
    elif rows < 0:
        raise ValueError("negative dimensions are not allowed")
    return Arr2(rows, cols, elem)


class Reduction:
    pass


def _row_reduce(name, w, axis):
    """np.min / np.max over axis 1 of the masked 2-D window: per row over unmasked entries; the
    row is masked iff all its entries are masked.  Each evaluation at a row term creates a ground
    reduction object (fresh result, witness column, universal bound fact)."""
    if not isinstance(w, Arr2) or raw(axis) != 1:
        raise Unsupported("np.%s pattern" % name)
    c = cur()
    c.use("numpy.%s(masked2d, axis=1)" % name)
    rows, cols = w.rows, w.cols
    e, mk = w._elem, w._mask
    if mk is None:
        mk = lambda r, cc: False  # noqa: E731  (MaskedArray(ndarray): nomask)
    if alg.as_concrete(cols) is not None and alg.as_concrete(cols) <= 0:
        raise ValueError("zero-size array to reduction operation which has no identity")
    memo = {}
    ctx = c

    def obj(r):
        k = M._ikey(r)
        if k in memo:
            return memo[k]
        cr, cc_ = alg.as_concrete(r), alg.as_concrete(cols)
        if cr is not None and cc_ is not None:
            # concrete reading
            ent = []
            ok = True
            for c_ in range(cc_):
                m_ = mk(cr, c_)
                m_ = alg.as_concrete(m_) if alg.is_sym(m_) else m_
                p_ = e(cr, c_)
                v_ = alg.as_concrete(p_[1]) if alg.is_sym(p_[1]) else p_[1]
                if m_ is None or v_ is None:
                    ok = False
                    break
                if not m_:
                    ent.append(v_)
            if ok:
                memo[k] = ((min(ent) if name == "min" else max(ent)) if ent else 0, not ent)
                return memo[k]
        v = ctx.fresh(name + "row", z3.RealSort())
        allm = ctx.fresh(name + "allm", z3.BoolSort())
        wit = ctx.fresh(name + "wit", z3.IntSort())
        present = lambda cc: alg.and_(M.in_range(cc, cols), alg.not_(mk(r, cc)))  # noqa: E731
        # attained at a present entry unless the whole row is masked
        ctx.aux.append(alg.lift(alg.implies(alg.not_(allm), alg.and_(present(wit), alg.eq(v, e(r, wit)[1])))))
        bound = (lambda cc: alg.le(v, e(r, cc)[1])) if name == "min" else (lambda cc: alg.ge(v, e(r, cc)[1]))
        body = lambda cc: alg.implies(present(cc), alg.and_(alg.not_(allm), bound(cc)))  # noqa: E731
        ctx.add_fact(name + "-bound", body, auto=False)  # column-indexed: instantiated by contract hints
        ctx.reductions.append({"name": name, "row": r, "value": v, "allmasked": allm, "wit": wit, "cols": cols, "bound": body})
        memo[k] = (v, allm)
        return memo[k]

    if not hasattr(ctx, "reductions"):
        ctx.reductions = []
    data = Arr(rows, "f", lambda r: (False, obj(r)[0]))
    mask = Arr(rows, "b", lambda r: (False, obj(r)[1]))
    return MArr(data, mask)


def np_min(a, axis=None):
    return _row_reduce("min", a, axis)


def np_max(a, axis=None):
    return _row_reduce("max", a, axis)


def np_issubdtype(d, t):
    d = M.dtype_of(d)
    t = M.dtype_of(t)
    return d.kind == t.kind


def np_any(a):
    if isinstance(a, MArr):
        return a.any()
    return M._as_arr(a, copy=False).any()


class VectorizedFn:
    """np.vectorize(f)(*arrays): elementwise application; with masked arguments the result is a
    masked array, masked where any argument is masked"""

    def __init__(self, f):
        self.f = f

    def __call__(self, *args):
        cur().use("numpy.vectorize")
        ns, gs, ms = [], [], []
        for a in args:
            if isinstance(a, MArr):
                ns.append(a.n)
                gs.append(a._data.getter())
                ms.append(a._mask.getter() if a._mask is not None else None)
            elif isinstance(a, Arr):
                ns.append(a.n)
                gs.append(a.getter())
                ms.append(None)
            else:
                raise Unsupported("vectorize over %r" % (type(a),))
        n = ns[0]
        for m in ns[1:]:
            if not M._same_len(n, m):
                raise ValueError("operands could not be broadcast together")
        cur().ensure(alg.gt(n, 0), ValueError, "cannot call `vectorize` on size 0 inputs unless `otypes` is set")
        f = self.f
        anym = any(m is not None for m in ms)

        def at(i):
            xs = [SNum(g(i)[1], g(i)[0], "f") for g in gs]
            r = f(*xs)
            return M._scalar_pair(r)

        elem = generic_map(n, at)
        data = Arr(n, "f", elem)
        if not anym:
            return data
        mask = Arr(n, "b", lambda i: (False, alg.or_(*[m(i)[1] for m in ms if m is not None])))
        return MArr(data, mask)


def generic_map(n, at):
    """element function of `at` applied position-wise, evaluated *now* (user code such as the
    vectorised closure must run inside the path): concrete length -> eager list; symbolic length ->
    one evaluation at a fresh generic index j, later instantiated by substitution j := i.  Ground
    axioms the evaluation introduces become universal facts over the positions."""
    c = cur()
    cn = alg.as_concrete(n)
    if cn is not None:
        vals = [at(i) for i in range(cn)]

        def elem(i):
            ci = alg.as_concrete(i) if alg.is_sym(i) else i
            if ci is None:
                raise Unsupported("symbolic index into an eagerly mapped concrete array")
            return vals[ci]

        return elem
    j = c.fresh("gj", z3.IntSort())
    a0, f0 = len(c.aux), c.branchings
    r = at(j)
    if c.branchings != f0:
        c.unsupported_here("data-dependent branch inside a vectorised function")
    new_aux = c.aux[a0:]
    del c.aux[a0:]

    def sub(t, i):
        return z3.substitute(t, (j, alg.lift(i))) if alg.is_sym(t) else t

    for t in new_aux:
        c.add_fact("generic-axiom", lambda i, t=t: alg.implies(M.in_range(i, n), sub(t, i)))
    return lambda i: (sub(r[0], i), sub(r[1], i))


# ------------------------------------------------------------------ np.ma namespace
def ma_ones(shape, dtype=float):
    return MArr(np_ones(shape, dtype), None)


def ma_zeros(shape, dtype=float):
    return MArr(np_zeros(shape, dtype), None)


def ma_empty(shape, dtype=float):
    return MArr(np_empty(shape, dtype), None)


def ma_masked_all(shape, dtype=float):
    n = _n_of_shape(shape)
    d = M.dtype_of(dtype)
    return MArr(_havoc_arr(n, d.kind, d.unit), M.const_arr(n, "b", (False, True)).copy())


def ma_empty_like(a, dtype=None):
    a0 = M._as_arr(M.getdata(a), copy=False)
    d = M.dtype_of(dtype) if dtype is not None else a0.dtype
    return MArr(_havoc_arr(a0.n, d.kind, d.unit), None)


def ma_array(data=None, mask=None, dtype=None, fill_value=None, copy=False):
    """np.ma.array / masked_array / MaskedArray(data, mask=...)"""
    if isinstance(data, Arr2):
        return data
    if isinstance(data, MArr):
        base = data
        d = base._data.copy() if copy else base._data
        mk = base._mask
    elif isinstance(data, (list, tuple)) and len(data) == 0:
        d = M.from_values([], "f")
        mk = None
    else:
        d = M._as_arr(data, dtype, copy=copy)
        mk = None
    if mask is not None:
        m = M._as_arr(mask, copy=True)
        if m.kind != "b":
            m = M.cast_arr(m, "b")
        if not M._same_len(m.n, d.n):
            raise M.MaskError("Mask and data not compatible")
        if mk is not None:
            g0, g1 = mk.getter(), m.getter()
            m = Arr(d.n, "b", lambda i: (False, alg.or_(g0(i)[1], g1(i)[1])))
        mk = m
    return MArr(d, mk)


def ma_diff(a, n=1):
    if not isinstance(a, MArr):
        a = MArr(M._as_arr(a, copy=False), None)
    return np_diff(a, n)


class _MaskError(Exception):
    pass


M.MaskError = _MaskError


class _ModelNS:
    """namespace of a library model: an attribute that is not modelled makes the function
    *undecided* (Unsupported), it is never silently wrong"""

    def __init__(self, name):
        object.__setattr__(self, "_ns_name", name)

    def __setattr__(self, attr, value):
        import types as _t

        from .ctx import guard_signature

        if isinstance(value, (_t.FunctionType, _t.LambdaType)) and not attr.startswith("_"):
            value = guard_signature(value, "%s.%s" % (object.__getattribute__(self, "_ns_name"), attr))
        object.__setattr__(self, attr, value)

    def __getattr__(self, attr):
        if attr.startswith("__"):
            raise AttributeError(attr)
        c = cur() if _active() else None
        msg = "%s.%s is not modelled" % (object.__getattribute__(self, "_ns_name"), attr)
        if c is not None:
            c.unsupported = msg
        raise Unsupported(msg)


def _active():
    from .ctx import active

    return active()


def _ufunc2(op):
    """binary ufunc spelling of an operator: routed through the operand's own operator semantics
    (ndarray or MaskedArray __array_wrap__ rules)"""

    def f(a, b):
        if isinstance(a, (list, tuple)):
            a = M._as_arr(a)
        if isinstance(b, (list, tuple)):
            b = M._as_arr(b)
        if isinstance(a, MArr) or isinstance(b, MArr):
            if op in ("and", "or", "xor", "minimum", "maximum", "lt", "le", "gt", "ge", "eq", "ne", "add", "sub", "mul"):
                # a plain ufunc with a masked operand: raw data operation, union mask
                return M.ma_ufunc2(op, a, b)
            raise Unsupported("np ufunc %s on masked operands" % op)
        if isinstance(a, Arr) or isinstance(b, Arr):
            return M.ew_binop(op, a, b)
        raise Unsupported("np ufunc %s on scalars" % op)

    return f


def np_logical_not(a, out=None):
    if out is not None:
        # in-place form: the result is written into `out` (a plain bool array of the same length)
        if not isinstance(out, Arr) or isinstance(a, MArr) or out.kind != "b":
            raise Unsupported("np.logical_not(..., out=%r)" % (type(out),))
        r = np_logical_not(a)
        if not M._same_len(r.n, out.n):
            raise ValueError("operands could not be broadcast together")
        g = r.getter()
        out.write(lambda i: True, lambda i: g(i))
        return out
    if isinstance(a, MArr):
        d = a._data
        if d.kind != "b":
            d = M.cast_arr(d, "b")
        return M.ma_ufunc1("invert", MArr(d, a._mask))
    a = M._as_arr(a, copy=False)
    if a.kind != "b":
        a = M.cast_arr(a, "b")
    return M.ew_unop("invert", a)


def np_count_nonzero(a):
    if isinstance(a, MArr):
        raise Unsupported("count_nonzero of masked array")
    a = M._as_arr(a, copy=False)
    g, k = a.getter(), a.kind
    c = M.count_true(a.n, lambda i: M._truth_pair(g(i), k), "nonzero")
    return SNum(c, False, "pyi") if alg.is_sym(c) else c


class _AbstractType:
    """np.integer, np.number, ...: only as the second argument of np.issubdtype"""

    def __init__(self, name, kinds):
        self.name, self.kinds = name, kinds

    def __repr__(self):
        return "np." + self.name


_ABSTRACT = {
    "integer": "iu",
    "signedinteger": "i",
    "unsignedinteger": "u",
    "inexact": "f",
    "number": "iuf",
    "generic": "iufbmM",
}


def np_issubdtype(a, b):
    ka = M.dtype_of(a)
    if isinstance(b, _AbstractType):
        return ka.kind in b.kinds
    if b is M.floating:
        return ka.kind == "f"
    if b is M.datetime64 or b is getattr(M, "timedelta64", None):
        return ka.kind == b.kind
    kb = M.dtype_of(b)
    return ka.kind == kb.kind and ka.unit == kb.unit


def build_np():
    np = _ModelNS("numpy")
    for _n, _k in _ABSTRACT.items():
        setattr(np, _n, _AbstractType(_n, _k))
    np.issubdtype = np_issubdtype
    np.__pyvc_model__ = True
    np.float64 = M.float64
    np.floating = M.floating
    np.datetime64 = M.datetime64
    np.uint8 = M.uint8
    np.int64 = M.int64
    np.int_ = M.int64  # the platform integer (64 bit here): same kind in the model
    np.intp = M.int64
    np.bool_ = M.bool_
    np.ndarray = Arr
    np.nan = _NAN
    np.array = np_array
    np.asarray = np_asarray
    np.zeros = np_zeros
    np.ones = np_ones
    np.full = np_full
    np.empty = np_empty
    np.ones_like = np_ones_like
    np.full_like = np_full_like
    np.copy = np_copy
    np.abs = np_abs
    np.absolute = np_abs
    np.sign = np_sign
    np.isnan = np_isnan
    np.isfinite = np_isfinite
    np.minimum = np_minimum
    np.concatenate = np_concatenate

    def np_reshape(a, shape):
        if not isinstance(a, (Arr, MArr)):
            raise Unsupported("np.reshape(%r)" % (type(a),))
        return a.reshape(shape)

    def np_flatnonzero(a):
        if isinstance(a, (Arr, MArr)):
            return a.nonzero()[0]  # 1-D: np.nonzero(np.ravel(a))[0]
        raise Unsupported("np.flatnonzero(%r)" % (type(a),))

    def np_putmask(a, mask, values):
        # np.putmask(a, mask, scalar): a[mask] = scalar (array values would be repeated: not modelled)
        if not M.is_scalar(values) or not isinstance(a, (Arr, MArr)):
            raise Unsupported("np.putmask pattern")
        if isinstance(a, MArr):
            raise Unsupported("np.putmask on a masked array")  # writes the data only, the mask is left alone
        a[mask] = values

    def np_nonzero(a):
        if isinstance(a, (Arr, MArr)):
            return a.nonzero()
        raise Unsupported("np.nonzero(%r)" % (type(a),))

    def np_ravel(a):
        if isinstance(a, (Arr, MArr)):
            return a.ravel()
        raise Unsupported("np.ravel(%r)" % (type(a),))

    np.nonzero = np_nonzero
    np.ravel = np_ravel
    np.reshape = np_reshape
    np.flatnonzero = np_flatnonzero
    np.putmask = np_putmask
    np.maximum = _ufunc2("maximum")
    np.logical_not = np_logical_not
    np.invert = np_logical_not
    np.logical_and = _ufunc2("and")
    np.logical_or = _ufunc2("or")
    np.logical_xor = _ufunc2("xor")
    np.bitwise_xor = _ufunc2("xor")
    np.bitwise_and = _ufunc2("and")
    np.bitwise_or = _ufunc2("or")
    np.greater = _ufunc2("gt")
    np.greater_equal = _ufunc2("ge")
    np.less = _ufunc2("lt")
    np.less_equal = _ufunc2("le")
    np.equal = _ufunc2("eq")
    np.not_equal = _ufunc2("ne")
    np.add = _ufunc2("add")
    np.subtract = _ufunc2("sub")
    np.multiply = _ufunc2("mul")
    np.negative = _ufunc1("neg")
    np.floor = _ufunc1("floor")
    np.ceil = _ufunc1("ceil")
    np.trunc = _ufunc1("trunc")
    np.rint = _ufunc1("rint")
    _rint = _ufunc1("rint")

    def np_round(a, decimals=0, out=None):
        if raw(decimals) != 0 or out is not None:
            raise Unsupported("np.round with decimals / out")
        return _rint(a)

    np.round = np_round
    np.around = np_round
    np.count_nonzero = np_count_nonzero
    np.size = lambda a: a.size
    np.shape = lambda a: a.shape
    np.ndim = lambda a: a.ndim
    np.asanyarray = lambda a, dtype=None: (a if isinstance(a, MArr) and dtype is None else np_asarray(a, dtype))
    np.diff = np_diff
    np.where = np_where
    np.mean = np_mean
    np.median = np_median
    np.std = np_std
    np.ptp = np_ptp
    np.min = np_min
    np.max = np_max
    np.any = np_any
    np.insert = np_insert
    np.issubdtype = np_issubdtype
    np.vectorize = VectorizedFn
    np.errstate = M._null_cm
    np.lib = types.SimpleNamespace(stride_tricks=types.SimpleNamespace(as_strided=as_strided))
    ma = _ModelNS("numpy.ma")
    ma.masked = masked
    ma.nomask = M.NoMask
    ma.MaskedArray = ma_array
    ma.masked_array = ma_array
    ma.array = ma_array
    ma.masked_invalid = M.masked_where_invalid
    ma.ones = ma_ones
    ma.zeros = ma_zeros
    ma.empty = ma_empty
    ma.masked_all = ma_masked_all
    ma.empty_like = ma_empty_like
    ma.diff = ma_diff
    ma.filled = M.ma_filled
    ma.getdata = lambda a: M.getdata(a) if isinstance(a, MArr) else M._as_arr(a, copy=False)
    ma.getmaskarray = lambda a: (a.maskarr() if isinstance(a, MArr) else M.const_arr(M._as_arr(a, copy=False).n, "b", (False, False)).copy())
    ma.getmask = lambda a: (a.mask if isinstance(a, MArr) else M.NoMask)
    def _ma_method(name):
        # np.ma.<f>(a, ...) for functions that are the MaskedArray method of the same name
        def f(a, *args, **kw):
            if not isinstance(a, MArr):
                if isinstance(a, (Arr, list, tuple)):
                    a = M.as_masked(a) if hasattr(M, "as_masked") else MArr(M._as_arr(a), None)
                else:
                    raise Unsupported("np.ma.%s(%r)" % (name, type(a)))
            return getattr(a, name)(*args, **kw)

        return f

    for _nm in ("reshape", "ravel", "flatten", "copy", "astype", "all", "any", "sum", "count", "nonzero"):
        setattr(ma, _nm, _ma_method(_nm))
    ma.absolute = _ufunc1("abs")
    ma.abs = _ufunc1("abs")
    ma.is_masked = lambda a: (M.reduce_any(a.maskarr(), None) if isinstance(a, MArr) else False)
    ma.isMaskedArray = lambda a: isinstance(a, MArr)
    ma.isMA = ma.isMaskedArray
    ma.core = types.SimpleNamespace(MaskedArray=MArr)
    np.ma = ma
    return np


class _NanConst(float):
    """np.nan: a Python float NaN singleton (identity matters for utils.isnan)"""


_NAN = _NanConst("nan")
NP = build_np()
