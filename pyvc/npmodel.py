"""Contract model of the numpy / numpy.ma vocabulary used by ioos_qc (DESIGN T2).

Arrays are one-dimensional (plus the 2-D strided window of flat_line_test):
  Arr(n, kind, elem)   n: length (int or z3 Int), elem(i) -> (isnan, value)
  MArr(data, mask)     numpy.ma.MaskedArray: data Arr, mask Arr of bool or None (= nomask)
`elem` is a closure; writes wrap it (`a[m] = c` becomes  i -> ite(m(i), c, old(i))),
slices are views that shift indices and write through to their base.

Every rule here restates what numpy 1.26 / numpy.ma does (read from numpy/ma/core.py);
the conformance run executes the same rules on concrete arrays and compares with the
real library (pyvc/conformance.py).
"""
import contextlib
from fractions import Fraction

import z3

from . import alg
from .ctx import ModelLimit, Unsupported, active, cur
from .values import NS_PER_S, SBool, SNum, convert_scalar, raw

# --------------------------------------------------------------------------- dtypes


class DType:
    names = None

    def __getattr__(self, attr):
        from .ctx import unknown_attr

        return unknown_attr("numpy.dtype", attr, ("kind", "unit"))

    def __init__(self, kind, unit=None):
        self.kind = kind
        self.unit = unit

    def __eq__(self, o):
        try:
            o = dtype_of(o)
        except Unsupported:
            return False
        return self.kind == o.kind and self.unit == o.unit

    def __ne__(self, o):
        return not self == o

    def __hash__(self):
        return hash((self.kind, self.unit))

    def __repr__(self):
        return "dtype(%s%s)" % (self.kind, "[%s]" % self.unit if self.unit else "")

    __str__ = __repr__


class _TypeToken:
    def __init__(self, name, kind, unit=None):
        self.name, self.kind, self.unit = name, kind, unit

    def __repr__(self):
        return "np." + self.name

    def __call__(self, x):
        if self.kind == "f":
            return SNum(*_scalar_pair(x)[::-1], kind="f") if not isinstance(x, SNum) else convert_scalar(x, "f")
        raise Unsupported("np.%s(...) constructor" % self.name)


float64 = _TypeToken("float64", "f")
floating = _TypeToken("floating", "f")
datetime64 = _TypeToken("datetime64", "M", None)
uint8 = _TypeToken("uint8", "u")
int64 = _TypeToken("int64", "i")
bool_ = _TypeToken("bool_", "b")

_STR_DTYPES = {
    "uint8": ("u", None),
    "float": ("f", None),
    "float64": ("f", None),
    "int": ("i", None),
    "int64": ("i", None),
    "bool": ("b", None),
    "timedelta64[s]": ("m", "s"),
    "timedelta64[ns]": ("m", "ns"),
    "datetime64[ns]": ("M", "ns"),
    "datetime64[s]": ("M", "s"),
}


def dtype_of(t):
    from . import builtins_model as bm

    if isinstance(t, DType):
        return t
    if isinstance(t, _TypeToken):
        return DType(t.kind, t.unit)
    if isinstance(t, str):
        if t in _STR_DTYPES:
            return DType(*_STR_DTYPES[t])
        try:
            import numpy as np

            d = np.dtype(t)  # other spellings of the same types ('m8[s]', '<f8', 'u1', ...)
        except Exception:  # noqa: BLE001
            raise Unsupported("dtype string %r" % t) from None
        if d.kind in "mM":
            return DType(d.kind, np.datetime_data(d)[0])
        if (d.kind, d.itemsize) in (("f", 8), ("i", 8), ("u", 1), ("b", 1)):
            return DType(d.kind)
        raise Unsupported("dtype string %r" % t)
    if t is float or t is bm.model_float:
        return DType("f")
    if t is int or t is bm.model_int:
        return DType("i")
    if t is bool:
        return DType("b")
    try:
        import numpy as np

        d = np.dtype(t)
        if d.kind == "f":
            return DType("f")
        if d.kind == "i":
            return DType("i")
        if d.kind == "u":
            return DType("u")
        if d.kind == "b":
            return DType("b")
        if d.kind in "mM":
            return DType(d.kind, np.datetime_data(d)[0])
    except Exception:  # noqa: BLE001
        pass
    raise Unsupported("dtype %r" % (t,))


# --------------------------------------------------------------------------- helpers
STRICT_BOUNDS = True  # concrete arrays refuse out-of-range reads (model runs); contract evaluation relaxes it



def _ikey(i):
    return i.get_id() if alg.is_sym(i) else i


def _scalar_pair(x, kind=None):
    """(nan, val) of a scalar operand"""
    if isinstance(x, tuple) and len(x) == 2 and not isinstance(x[0], (SNum,)):
        return x
    if isinstance(x, SBool):
        return (False, x.t)
    if isinstance(x, bool):
        return (False, x)
    c = SNum.coerce(x)
    if c is None:
        if x is None:
            raise TypeError("unsupported operand type(s): 'NoneType'")
        raise Unsupported("scalar operand %r" % (type(x),))
    return (c[0], c[1])


def is_scalar(x):
    return isinstance(x, (SNum, SBool, bool, int, float, Fraction)) or _is_np_scalar(x)


def _is_np_scalar(x):
    try:
        import numpy as np

        return isinstance(x, np.generic)
    except ImportError:  # pragma: no cover
        return False


def _scalar_kind(x):
    if isinstance(x, (SBool, bool)):
        return "b"
    if isinstance(x, SNum):
        return {"pyi": "i", "pyf": "f"}.get(x.kind, x.kind)
    if isinstance(x, int):
        return "i"
    return "f"


def in_range(i, n):
    return alg.and_(alg.le(0, i), alg.lt(i, n))


def _fork(c):
    if not alg.is_sym(c):
        return bool(c)
    return cur().fork(c)


def norm_slice(sl, n):
    """(lo, length) of a[sl] for step 1"""
    if sl.step is not None and raw(sl.step) != 1:
        raise Unsupported("slice step")

    def norm(idx, default):
        if idx is None:
            return default
        idx = raw(idx)
        if not alg.is_sym(idx) and not alg.is_sym(n):
            return max(n + idx, 0) if idx < 0 else min(idx, n)
        if not alg.is_sym(idx):
            if idx < 0:
                return alg.max_(alg.add(n, idx), 0)
            if idx == 0:
                return 0
            return alg.min_(idx, n)
        return alg.ite(alg.lt(idx, 0), alg.max_(alg.add(n, idx), 0), alg.min_(idx, n))

    lo = norm(sl.start, 0)
    hi = norm(sl.stop, n)
    ln = alg.max_(alg.sub(hi, lo), 0)
    c = alg.as_concrete(ln) if alg.is_sym(ln) else ln
    return lo, (c if c is not None else z3.simplify(ln))


def _same_len(n1, n2):
    if n1 is n2:
        return True
    e = alg.eq(n1, n2)
    return _fork(e)


# --------------------------------------------------------------------------- Arr


class Arr:
    ndim = 1
    __hash__ = None
    __array_priority__ = 0

    def __init__(self, n, kind, elem, unit=None, name=None):
        self.n = raw(n)
        self.kind = kind
        self.unit = unit
        self._elem = elem
        self._memo = {}
        self.name = name
        self.is_input = False
        self.readonly = False

    # ---- element access
    def elem(self, i):
        k = _ikey(i)
        m = self._memo
        if k in m:
            return m[k][1]
        r = self._elem(i)
        m[k] = (i, r)
        return r

    def val(self, i):
        return self.elem(i)[1]

    def nan(self, i):
        return self.elem(i)[0]

    def _root(self):
        return self

    def getter(self):
        """frozen, memoised element getter: the array's contents *now* (later writes to the
        array replace `_elem` and do not affect a getter taken earlier)"""
        f = self._elem
        memo = {}

        def g(i):
            k = _ikey(i)
            if k in memo:
                return memo[k][1]
            r = f(i)
            memo[k] = (i, r)
            return r

        return g

    def write(self, cond, val):
        """elementwise conditional write: where cond(i): self[i] = val(i)"""
        if self.is_input:
            cur().notes.append(("frame-write", self.name))
        if self.readonly:
            raise ValueError("assignment destination is read-only")
        old = self._elem
        kind = self.kind

        def new(i, old=old, cond=cond, val=val):
            c = cond(i)
            if c is False:
                return old(i)
            o = old(i)
            v = _cast_pair(val(i), kind)
            return (alg.ite(c, v[0], o[0]), alg.ite(c, v[1], o[1]))

        self._elem = new
        self._memo = {}

    # ---- numpy attributes
    @property
    def size(self):
        return _len_value(self.n)

    @property
    def shape(self):
        return (_len_value(self.n),)

    @property
    def dtype(self):
        return DType(self.kind, self.unit)

    @property
    def strides(self):
        return (8 if self.kind != "b" and self.kind != "u" else 1,)

    @property
    def T(self):
        return self

    def __len__(self):
        c = alg.as_concrete(self.n)
        if c is None:
            raise Unsupported("builtin len() of a symbolic-length array (rebind len)")
        return int(c)

    def copy(self):
        return Arr(self.n, self.kind, self.getter(), self.unit)

    def __deepcopy__(self, memo):
        return self.copy()

    def flatten(self):
        return self.copy()

    def ravel(self):
        return self

    def reshape(self, *shape):
        if len(shape) == 1 and isinstance(shape[0], tuple):
            shape = shape[0]
        if len(shape) != 1:
            raise Unsupported("reshape to %d dims" % len(shape))
        tgt = raw(shape[0])
        if not alg.is_sym(tgt) and tgt == -1:
            return View(self, 0, self.n)  # reshape(-1): the 1-D view of a 1-D array
        if not _same_len(self.n, tgt):
            ca, cb = alg.as_concrete(self.n), alg.as_concrete(tgt)
            if ca is not None and cb is not None:
                raise ValueError("cannot reshape array of size %d into shape (%d,)" % (ca, cb))
            raise Unsupported("reshape to a length that is not syntactically the array's own")
        return View(self, 0, self.n)

    def astype(self, t):
        d = dtype_of(t)
        return cast_arr(self, d.kind, d.unit)

    def fill(self, v):
        p = _scalar_pair(v)
        self.write(lambda i: True, lambda i: p)

    def all(self):
        return reduce_all(self, None)

    def any(self):
        return reduce_any(self, None)

    def nonzero(self):
        g, k = self.getter(), self.kind
        return (IdxSet(self.n, lambda i: _truth_pair(g(i), k)),)

    def view(self, t=None):
        # arr.view(np.ma.MaskedArray): a masked array over the same memory with no mask
        if t is MArr or getattr(getattr(t, "__wrapped__", t), "__name__", "") in ("ma_array", "MArr"):
            return MArr(self, None)
        raise Unsupported("ndarray.view(%r)" % (t,))

    def _np(self, name, *a, **k):
        from . import npfuncs

        f = getattr(npfuncs, "np_" + name, None)
        if f is None:
            raise Unsupported("numpy.ndarray.%s is not modelled" % name)
        return f(self, *a, **k)

    def mean(self, *a, **k):
        return self._np("mean", *a, **k)

    def std(self, *a, **k):
        return self._np("std", *a, **k)

    def min(self, *a, **k):  # noqa: A003
        return self._np("min", *a, **k)

    def max(self, *a, **k):  # noqa: A003
        return self._np("max", *a, **k)

    def ptp(self, *a, **k):
        return self._np("ptp", *a, **k)

    def tolist(self):
        n = alg.as_concrete(self.n)
        if n is None:
            raise Unsupported("tolist of symbolic-length array")
        return [scalar_of(self, i) for i in range(n)]

    def __iter__(self):
        n = alg.as_concrete(self.n)
        if n is None:
            raise Unsupported("iteration over a symbolic-length array")
        return iter([scalar_of(self, i) for i in range(n)])

    # ---- indexing
    def __getitem__(self, idx):
        return arr_getitem(self, idx)

    def __setitem__(self, idx, value):
        arr_setitem(self, idx, value)

    # ---- operators (ndarray semantics); defer to MArr / MaskedConst
    def _defer(self, o):
        return isinstance(o, (MArr, MaskedConst)) or getattr(o, "__array_priority__", 0) > 0 and not isinstance(o, Arr)

    def _binop(self, o, op, swap=False):
        if self._defer(o):
            return NotImplemented
        if not isinstance(o, Arr) and not is_scalar(o):
            if o is None:
                raise TypeError("unsupported operand type(s) for %s: 'float' and 'NoneType'" % op)
            return NotImplemented
        return ew_binop(op, o, self) if swap else ew_binop(op, self, o)

    def __add__(self, o):
        return self._binop(o, "add")

    def __radd__(self, o):
        return self._binop(o, "add", True)

    def __sub__(self, o):
        return self._binop(o, "sub")

    def __rsub__(self, o):
        return self._binop(o, "sub", True)

    def __mul__(self, o):
        return self._binop(o, "mul")

    def __rmul__(self, o):
        return self._binop(o, "mul", True)

    def __truediv__(self, o):
        return self._binop(o, "div")

    def __rtruediv__(self, o):
        return self._binop(o, "div", True)

    def __lt__(self, o):
        return self._binop(o, "lt")

    def __le__(self, o):
        return self._binop(o, "le")

    def __gt__(self, o):
        return self._binop(o, "gt")

    def __ge__(self, o):
        return self._binop(o, "ge")

    def __eq__(self, o):
        return self._binop(o, "eq")

    def __ne__(self, o):
        return self._binop(o, "ne")

    def __and__(self, o):
        return self._binop(o, "and")

    def __rand__(self, o):
        return self._binop(o, "and", True)

    def __or__(self, o):
        return self._binop(o, "or")

    def __ror__(self, o):
        return self._binop(o, "or", True)

    def __xor__(self, o):
        return self._binop(o, "xor")

    def __rxor__(self, o):
        return self._binop(o, "xor", True)

    def _inplace(self, o, op):
        """a op= o on an ndarray: the result is written into this very buffer (every view of it sees it)"""
        r = self._binop(o, op)
        if r is NotImplemented or not isinstance(r, Arr):
            raise Unsupported("in-place %s with %r" % (op, type(o)))
        if not _same_len(r.n, self.n) or r.kind != self.kind:
            raise Unsupported("in-place %s changes the length or the element type" % op)
        g = r.getter()
        self.write(lambda i: True, lambda i: g(i))
        return self

    def __iand__(self, o):
        return self._inplace(o, "and")

    def __ior__(self, o):
        return self._inplace(o, "or")

    def __ixor__(self, o):
        return self._inplace(o, "xor")

    def __iadd__(self, o):
        return self._inplace(o, "add")

    def __isub__(self, o):
        return self._inplace(o, "sub")

    def __imul__(self, o):
        return self._inplace(o, "mul")

    def __itruediv__(self, o):
        return self._inplace(o, "div")

    def __invert__(self):
        return ew_unop("invert", self)

    def __neg__(self):
        return ew_unop("neg", self)

    def __abs__(self):
        return ew_unop("abs", self)

    def __bool__(self):
        n = alg.as_concrete(self.n)
        if n == 1:
            return bool(SBool(_truth_pair(self.elem(0), self.kind)))
        if n == 0:
            return False  # numpy: deprecated, empty array is False
        raise ValueError("The truth value of an array with more than one element is ambiguous")

    def __getattr__(self, attr):
        # an ndarray attribute the model does not cover: the function is undecided, not "raises AttributeError"
        from .ctx import unknown_attr

        return unknown_attr("numpy.ndarray", attr, ("calls", "fn", "fv", "fsec", "fns", "fnat", "ns", "secs", "base", "off", "is_input", "name", "readonly", "telescopes", "diff_of", "frame"))

    def __repr__(self):
        return "Arr<%s,n=%s>" % (self.kind, self.n)

    def __format__(self, spec):
        return repr(self)


def _freeze(arr):
    return arr.getter()


class View(Arr):
    """a[lo:lo+n] sharing the buffer of `base`"""

    def __init__(self, base, off, n):
        Arr.__init__(self, n, base.kind, None, base.unit, base.name)
        self.base = base
        self.off = off
        self.is_input = base.is_input
        self.readonly = base.readonly

    def _root(self):
        return self.base._root()

    def _total_off(self):
        if isinstance(self.base, View):
            return alg.add(self.off, self.base._total_off())
        return self.off

    def elem(self, i):
        return self.base.elem(alg.add(i, self.off))

    def getter(self):
        g = self._root().getter()
        off = self._total_off()
        return lambda i: g(alg.add(i, off))

    def write(self, cond, val):
        off, n = self.off, self.n
        def c2(j):
            r = in_range(alg.sub(j, off), n)
            if r is False:
                return False  # concrete reading: do not evaluate cond outside the view
            return alg.and_(r, cond(alg.sub(j, off)))

        self.base.write(c2, lambda j: val(alg.sub(j, off)))

    def copy(self):
        return Arr(self.n, self.kind, _freeze(self), self.unit)


def _len_value(n):
    c = alg.as_concrete(n)
    if c is not None:
        return int(c)
    return SNum(n, False, "pyi")


def _cast_pair(p, kind):
    """assignment cast of an element pair into an array of `kind`"""
    nan, v = p
    if kind == "b":
        if alg.is_sym(v) and z3.is_bool(v) or isinstance(v, bool):
            return (False, v)
        return (False, alg.or_(nan, alg.ne(v, 0)))
    if alg.is_sym(v) and z3.is_bool(v) or isinstance(v, bool):
        v = alg.ite(v, 1, 0)
    if kind in ("u", "i"):
        # pure (evaluated lazily): NaN into an integer array is excluded at the write site
        if alg.is_sym(v) and z3.is_real(v):
            v = alg.trunc(v)
        elif isinstance(v, Fraction):
            v = alg.trunc(v)
        return (False, v)
    return (nan, v)


def _truth_pair(p, kind):
    nan, v = p
    if kind == "b":
        return v
    return alg.or_(nan, alg.ne(v, 0))


def scalar_of(arr, i):
    nan, v = arr.elem(i)
    if arr.kind == "b":
        return SBool(v)
    return SNum(v, nan, arr.kind, arr.unit)


def const_arr(n, kind, pair, unit=None):
    return Arr(n, kind, lambda i: pair, unit)


def from_values(vals, kind="f", unit=None):
    """concrete array from python values (None/NaN -> nan)"""
    ps = []
    for v in vals:
        if isinstance(v, tuple):
            ps.append(v)
        elif isinstance(v, (SNum, SBool)):
            ps.append(_cast_pair(_scalar_pair(v), kind))
        elif v is None or (isinstance(v, float) and v != v):
            if kind != "f" and kind not in ("m", "M"):
                raise TypeError("int() argument must be a string, a bytes-like object or a real number, not 'NoneType'")
            ps.append((True, 0))
        elif kind == "b":
            ps.append((False, bool(v)))
        else:
            ps.append(_cast_pair((False, alg.conc(v)), kind))
    n = len(ps)

    def elem(i):
        if isinstance(i, int):
            if not 0 <= i < n:
                if STRICT_BOUNDS:
                    raise IndexError("model: concrete index %d out of range %d" % (i, n))
                return (False, False) if kind == "b" else (False, 0)  # contract evaluation: guarded by the clause
            return ps[i]
        c = alg.as_concrete(i)
        if c is not None:
            return ps[c]
        if n == 0:
            return (False, 0) if kind != "b" else (False, False)
        r = ps[n - 1]
        for j in range(n - 2, -1, -1):
            r = (alg.ite(alg.eq(i, j), ps[j][0], r[0]), alg.ite(alg.eq(i, j), ps[j][1], r[1]))
        return r

    return Arr(n, kind, elem, unit)


def sym_arr(name, n, kind="f", unit=None, nan=True):
    """input array: uninterpreted element functions"""
    c = cur()
    if kind == "b":
        fv = z3.Function(name + "_val", z3.IntSort(), z3.BoolSort())
    elif kind == "f":
        fv = z3.Function(name + "_val", z3.IntSort(), z3.RealSort())
    else:
        fv = z3.Function(name + "_val", z3.IntSort(), z3.IntSort())
    c.index_funcs.append(fv)
    if nan and kind == "f":
        fn = z3.Function(name + "_nan", z3.IntSort(), z3.BoolSort())
        c.index_funcs.append(fn)
        a = Arr(n, kind, lambda i: (fn(alg.lift(i)), fv(alg.lift(i))), unit, name)
        a.fn = fn
    else:
        a = Arr(n, kind, lambda i: (False, fv(alg.lift(i))), unit, name)
        a.fn = None
    a.fv = fv
    return a


# --------------------------------------------------------------------------- casts


def cast_arr(a, kind, unit=None):
    sk, su = a.kind, a.unit
    src = a

    def conv(p):
        nan, v = p
        if kind == "f":
            if sk == "b":
                return (False, alg.ite(v, 1, 0))
            if sk in ("m", "M"):
                return (False, alg.ite(nan, -(2**63), alg.to_real(v) if alg.is_sym(v) else v))
            return (nan, alg.to_real(v) if alg.is_sym(v) else v)
        if kind in ("i", "u"):
            if sk == "b":
                return (False, alg.ite(v, 1, 0))
            return _cast_pair(p, kind)
        if kind == "b":
            return (False, _truth_pair(p, sk))
        if kind in ("m", "M"):
            if sk in ("m", "M"):
                if su == unit or unit is None:
                    return p
                if su == "ns" and unit == "s":
                    return (nan, alg.idiv(v, NS_PER_S))
                if su == "s" and unit == "ns":
                    return (nan, alg.mul(v, NS_PER_S))
                raise Unsupported("time unit conversion")
            if sk in ("i", "u"):
                return (False, v)
            raise Unsupported("cast %s->%s" % (sk, kind))
        raise Unsupported("cast to %s" % kind)

    f = src.getter()
    return Arr(a.n, kind, lambda i: conv(f(i)), unit if kind in ("m", "M") else None)


# --------------------------------------------------------------------------- elementwise


def _operand(o):
    """-> (n or None, kind, getter(i)->pair)"""
    if isinstance(o, Arr):
        return o.n, o.kind, o.getter()
    if is_scalar(o):
        p = _scalar_pair(o)
        return None, _scalar_kind(o), (lambda i: p)
    raise Unsupported("operand %r" % (type(o),))


def broadcast(ns):
    """common length of 1-D operands (None = scalar) -> (n, [index maps])"""
    ns_arr = [n for n in ns if n is not None]
    if not ns_arr:
        raise Unsupported("scalar-only broadcast")
    n = ns_arr[0]
    maps = []
    ident = lambda i: i  # noqa: E731
    zero = lambda i: 0  # noqa: E731
    out = n
    for m in ns_arr[1:]:
        if m is out:
            continue
        if _same_len(out, m):
            continue
        # lengths differ: numpy broadcasts a length-1 operand
        if _fork(alg.eq(m, 1)):
            continue
        if _fork(alg.eq(out, 1)):
            out = m
            continue
        raise ValueError("operands could not be broadcast together with shapes")
    for m in ns:
        if m is None:
            maps.append(zero)
        elif m is out or alg.simp(alg.eq(m, out)) is True:
            maps.append(ident)
        else:
            # by the forks above either m == out or m == 1 on this path
            maps.append((lambda mm: (lambda i: alg.ite(alg.eq(mm, out), i, 0)))(m))
    return out, maps


_ARITH = {"add": alg.add, "sub": alg.sub, "mul": alg.mul}
_CMP = {"lt": alg.lt, "le": alg.le, "gt": alg.gt, "ge": alg.ge}


def _res_kind(op, k1, k2):
    if op in ("lt", "le", "gt", "ge", "eq", "ne"):
        return "b"
    if op in ("and", "or", "xor"):
        if k1 == "b" and k2 == "b":
            return "b"
        raise Unsupported("bitwise op on non-bool")
    if k1 in ("m", "M") or k2 in ("m", "M"):
        return SNum._rk(k1, k2, op)
    if op == "div":
        return "f"
    if k1 == "f" or k2 == "f":
        return "f"
    if k1 == "b" and k2 == "b":
        return "b" if op in ("add", "mul") else "i"
    if k1 == "u" and k2 == "u":
        return "u"
    if k1 == "b":
        return k2
    if k2 == "b":
        return k1
    return "i"


def pair_op(op, a, b, ka="f", kb="f"):
    """elementwise operation on (nan, val) pairs - raw ndarray semantics"""
    an, av = a
    bn, bv = b
    if ka == "b" and op not in ("and", "or", "xor", "eq", "ne"):
        av = alg.ite(av, 1, 0)
    if kb == "b" and op not in ("and", "or", "xor", "eq", "ne"):
        bv = alg.ite(bv, 1, 0)
    if op in _ARITH:
        return (alg.or_(an, bn), _ARITH[op](av, bv))
    if op == "div":
        # x/0 -> inf (not in the model); 0/0 -> nan.  Callers that can see a zero
        # divisor handle it (masked division domain); plain ndarray division forks.
        return (alg.or_(an, bn), alg.rdiv(av, alg.ite(alg.eq(bv, 0), 1, bv) if alg.is_sym(bv) else (bv if bv != 0 else 1)))
    if op in _CMP:
        return (False, alg.and_(alg.not_(alg.or_(an, bn)), _CMP[op](av, bv)))
    if op == "eq":
        if ka == "b" and kb == "b":
            return (False, alg.iff(av, bv))
        if ka == "b":
            av = alg.ite(av, 1, 0)
        if kb == "b":
            bv = alg.ite(bv, 1, 0)
        return (False, alg.and_(alg.not_(alg.or_(an, bn)), alg.eq(av, bv)))
    if op == "ne":
        if ka == "b" and kb == "b":
            return (False, alg.xor(av, bv))
        if ka == "b":
            av = alg.ite(av, 1, 0)
        if kb == "b":
            bv = alg.ite(bv, 1, 0)
        return (False, alg.or_(an, bn, alg.ne(av, bv)))
    if op == "and":
        return (False, alg.and_(av, bv))
    if op == "or":
        return (False, alg.or_(av, bv))
    if op == "xor":
        return (False, alg.xor(av, bv))
    if op == "minimum":
        # np.minimum propagates NaN
        return (alg.or_(an, bn), alg.min_(av, bv))
    if op == "maximum":
        return (alg.or_(an, bn), alg.max_(av, bv))
    raise Unsupported("op " + op)


def ew_binop(op, x, y):
    n1, k1, g1 = _operand(x)
    n2, k2, g2 = _operand(y)
    n, (m1, m2) = broadcast([n1, n2])
    kind = _res_kind(op, k1, k2)
    unit = None
    if kind in ("m", "M"):
        unit = getattr(x, "unit", None) or getattr(y, "unit", None)
    if op == "div" and active():
        # plain ndarray division: a zero divisor gives inf/nan which the model lacks
        k = cur().fresh("dz", z3.IntSort())
        bz = alg.and_(in_range(k, n), alg.eq(g2(m2(k))[1], 0), alg.not_(g2(m2(k))[0]))
        if alg.simp(bz) is not False:
            if _fork(bz):
                raise ModelLimit("ndarray division by zero gives inf/nan")
            cur().add_fact("nonzero-divisor", lambda i: alg.implies(in_range(i, n), alg.or_(g2(m2(i))[0], alg.ne(g2(m2(i))[1], 0))))
    return Arr(n, kind, lambda i: pair_op(op, g1(m1(i)), g2(m2(i)), k1, k2), unit)


def pair_unop(op, p, kind):
    nan, v = p
    if op == "invert":
        if kind != "b":
            raise Unsupported("~ on non-bool array")
        return (False, alg.not_(v))
    if kind == "b":
        v = alg.ite(v, 1, 0)
    if op == "neg":
        return (nan, alg.neg(v))
    if op == "abs":
        return (nan, alg.abs_(v))
    if op == "sign":
        return (nan, alg.sign(v))
    if op == "isnan":
        return (False, nan)
    if op == "isfinite":
        return (False, alg.not_(nan))
    if op in ("floor", "ceil", "trunc", "rint"):
        if kind in ("i", "u", "b"):
            return (nan, v)
        if kind != "f":
            raise Unsupported("%s of kind %s" % (op, kind))
        if op == "floor":
            r = alg.floor(v)
        elif op == "ceil":
            r = alg.neg(alg.floor(alg.neg(v)))
        elif op == "trunc":
            r = alg.trunc(v)
        else:  # round half to even (numpy.round / rint with 0 decimals)
            fl = alg.floor(v)
            frac = alg.sub(v, alg.to_real(fl))
            odd = alg.eq(alg.mod(fl, 2), 1)
            half = Fraction(1, 2)
            r = alg.ite(alg.or_(alg.gt(frac, half), alg.and_(alg.eq(frac, half), odd)), alg.add(fl, 1), fl)
        return (nan, alg.to_real(r))
    raise Unsupported("unop " + op)


def _unop_kind(op, kind):
    if op in ("isnan", "isfinite", "invert"):
        return "b"
    if op == "sign" and kind in ("m",):
        raise Unsupported("sign of timedelta")
    return kind


def ew_unop(op, a):
    g = a.getter()
    k = a.kind
    return Arr(a.n, _unop_kind(op, k), lambda i: pair_unop(op, g(i), k), a.unit)


# --------------------------------------------------------------------------- index sets


class IdxSet:
    """integer index array produced by np.where(cond)[0] / nonzero, kept as a membership
    predicate over positions (plus an optional shift)"""

    __hash__ = None

    def __getattr__(self, attr):
        from .ctx import unknown_attr

        return unknown_attr("numpy.ndarray", attr, ("n", "member", "shift"))

    def __init__(self, n, member, shift=0):
        self.n = n  # length of the source
        self.member = member  # j (source position) -> bool
        self.shift = shift

    def __add__(self, k):
        k = raw(k)
        return IdxSet(self.n, self.member, alg.add(self.shift, k))

    __radd__ = __add__

    def __sub__(self, k):
        return IdxSet(self.n, self.member, alg.sub(self.shift, raw(k)))

    def contains(self, j):
        """is position j among the index values?"""
        s = alg.sub(j, self.shift)
        r = in_range(s, self.n)
        if r is False:
            return False  # concrete reading: no evaluation outside the source
        return alg.and_(r, self.member(s))


# --------------------------------------------------------------------------- get/set item


def _as_bool_index(idx):
    """boolean index array -> Arr('b') of the positions written (MaskedArray index: its data)"""
    if isinstance(idx, MArr):
        idx = idx._data
    if hasattr(idx, "__pyvc_array__"):
        idx = idx.__pyvc_array__()
    if isinstance(idx, Arr) and idx.kind == "b":
        return idx
    return None


def arr_getitem(a, idx):
    if isinstance(idx, tuple) and len(idx) == 1:
        idx = idx[0]
    if idx is True:
        # a[array(True)] has shape (1, n): the whole array with an extra axis; the streams reshape it back
        return Selection(a, const_arr(a.n, "b", (False, True)))
    if isinstance(idx, slice):
        lo, ln = norm_slice(idx, a.n)
        return View(a, lo, ln)
    if isinstance(idx, (int, SNum)) and not isinstance(idx, bool):
        i = raw(idx)
        i = alg.ite(alg.lt(i, 0), alg.add(a.n, i), i) if alg.is_sym(i) else (a.n + i if i < 0 and not alg.is_sym(a.n) else (alg.add(a.n, i) if i < 0 else i))
        if active():
            cur().ensure(in_range(i, a.n), IndexError, "index out of bounds")
        return scalar_of(a, i)
    b = _as_bool_index(idx)
    if b is not None:
        if not _same_len(a.n, b.n):
            raise IndexError("boolean index did not match indexed array")
        return Selection(a, b)
    raise Unsupported("getitem index %r" % (type(idx),))


def _value_getter(value, n_target, what="assignment"):
    """getter(i) for the right-hand side of an assignment of n_target elements"""
    if isinstance(value, MArr):
        value = value._data
    if isinstance(value, Arr):
        if not _same_len(value.n, n_target):
            if _fork(alg.eq(value.n, 1)):
                return lambda i: value.elem(0)
            raise ValueError("could not broadcast input array into shape (%s)" % what)
        return value.elem
    if isinstance(value, MaskedConst):
        raise Unsupported("assigning masked constant into ndarray")
    p = _scalar_pair(value)
    return lambda i: p


def arr_setitem(a, idx, value):
    if isinstance(idx, tuple) and len(idx) == 1:
        idx = idx[0]
    if isinstance(idx, slice):
        lo, ln = norm_slice(idx, a.n)
        g = _value_getter(value, ln, "slice")
        vk = _value_kind(value)
        a.write(lambda j: in_range(alg.sub(j, lo), ln), lambda j: _kinded(g(alg.sub(j, lo)), vk))
        return
    if isinstance(idx, (int, SNum)) and not isinstance(idx, bool):
        i = raw(idx)
        if alg.is_sym(i) or alg.is_sym(a.n):
            i = alg.ite(alg.lt(i, 0), alg.add(a.n, i), i)
        elif i < 0:
            i = a.n + i
        if active():
            cur().ensure(in_range(i, a.n), IndexError, "index out of bounds for axis 0")
        if isinstance(value, (Arr, MArr)):
            raise Unsupported("setting an array element with a sequence")
        p = _kinded(_scalar_pair(value), _value_kind(value))
        a.write(lambda j: alg.eq(j, i), lambda j: p)
        return
    b = _as_bool_index(idx)
    if b is not None:
        if not _same_len(a.n, b.n):
            raise IndexError("boolean index did not match indexed array along dimension 0")
        if isinstance(value, (Arr, MArr, Selection)):
            sel_write(a, b, value)
            return
        p = _kinded(_scalar_pair(value), _value_kind(value))
        bg = b.getter()
        a.write(lambda j: bg(j)[1], lambda j: p)
        return
    if isinstance(idx, IdxSet):
        if isinstance(value, (Arr, MArr)):
            raise Unsupported("index-array assignment of an array")
        # bounds: every index value must be a valid position
        cn, ca, sh = alg.as_concrete(idx.n), alg.as_concrete(a.n), alg.as_concrete(idx.shift)
        done = False
        if cn is not None and ca is not None and sh is not None:
            mem = [alg.as_concrete(idx.member(s_)) if alg.is_sym(idx.member(s_)) else idx.member(s_) for s_ in range(cn)]
            if all(m is not None for m in mem):
                done = True
                for s_, m in enumerate(mem):
                    if m and not 0 <= s_ + sh < ca:
                        raise IndexError("index %d is out of bounds for axis 0 with size %d" % (s_ + sh, ca))
        if active() and not done:
            k = cur().fresh("ix", z3.IntSort())
            bad = alg.and_(idx.contains(k), alg.not_(in_range(k, a.n)))
            if alg.simp(bad) is not False and _fork(bad):
                raise IndexError("index out of bounds")
            cur().add_fact("idxset-in-bounds", lambda j: alg.implies(idx.contains(j), in_range(j, a.n)))
        p = _kinded(_scalar_pair(value), _value_kind(value))
        a.write(lambda j: idx.contains(j), lambda j: p)
        return
    raise Unsupported("setitem index %r" % (type(idx),))


def _value_kind(v):
    if isinstance(v, MArr):
        return v._data.kind
    if isinstance(v, Arr):
        return v.kind
    return _scalar_kind(v)


def _kinded(p, kind):
    """make a bool-kind pair numeric-compatible lazily (handled in _cast_pair)"""
    return p


class Selection:
    """a[boolmask] (a copy holding the selected elements in order).  Kept in the canonical
    form (base contents, selection predicate); only whole-selection uses are modelled."""

    def __getattr__(self, attr):
        from .ctx import unknown_attr

        return unknown_attr("numpy.ndarray", attr, ("calls", "fn", "fv", "fsec", "fns", "fnat", "ns", "secs", "base", "off", "is_input", "name", "readonly", "telescopes", "diff_of", "frame"))

    __hash__ = None

    def __init__(self, base, sel):
        self.base_elem = base.getter()
        self.base_n = base.n
        self.kind = base.kind
        self.unit = base.unit
        self.sel = sel.getter()

    @property
    def dtype(self):
        return DType(self.kind, self.unit)

    @property
    def size(self):
        """number of selected rows: an abstract count (0 <= c <= n, c == n iff every row, c == 0 iff none)"""
        if not hasattr(self, "_size"):
            sel = self.sel
            c = count_true(self.base_n, lambda i: sel(i)[1], "selected")
            self._size = _len_value(c) if not alg.is_sym(c) else SNum(c, False, "pyi")
        return self._size

    def to_numpy(self):
        return self

    def __deepcopy__(self, memo):
        c = Selection.__new__(Selection)
        c.__dict__.update(self.__dict__)
        return c

    def reshape(self, *shape):
        """reshape to the shape of the unselected array: possible only when every row is selected"""
        if len(shape) == 1 and isinstance(shape[0], tuple):
            shape = shape[0]
        if len(shape) != 1:
            raise Unsupported("reshape of a selection to %d dims" % len(shape))
        sel = self.sel
        allsel = reduce_all(Arr(self.base_n, "b", lambda i: sel(i)), None)
        if not _same_len(raw(shape[0]), self.base_n) or not _fork(allsel.t):
            raise ValueError("cannot reshape array of size into shape")
        return self

    def __setitem__(self, idx, value):
        # selections handed out by the streams are views of frame columns (read-only under pandas
        # copy-on-write) or fresh copies; the conservative contract is: not writable
        raise ValueError("assignment destination is read-only")


def sel_write(a, b, value):
    """a[b] = value with a boolean mask b.  Modelled for the idiom  a[m] = src[m]  (the value is a
    selection of an equally long array by the *same* mask): position-wise copy where m holds."""
    if isinstance(value, Selection):
        if not _same_len(a.n, value.base_n):
            raise Unsupported("a[m] = src[m2] with arrays of different length")
        k = z3.Int("selw!k")
        same = alg.simp(alg.iff(b.val(k), value.sel(k)[1]))
        if same is not True:
            raise Unsupported("a[m] = src[m2] with different masks (needs rank arithmetic)")
        src = value.base_elem
        bg = b.getter()
        a.write(lambda j: bg(j)[1], lambda j: src(j))
        return
    v = value._data if isinstance(value, MArr) else value
    vn = alg.as_concrete(v.n)
    if vn == 0:
        # zero values can only be assigned to zero selected positions
        anytrue = reduce_any(b.copy(), None)
        if _fork(anytrue.t):
            raise ValueError("NumPy boolean array indexing assignment cannot assign 0 input values to the output values where the mask is true")
        return
    if vn == 1:
        p = v.elem(0)
        bg = b.getter()
        a.write(lambda j: bg(j)[1], lambda j: p)
        return
    raise Unsupported("boolean-mask assignment of an array value")


# --------------------------------------------------------------------------- reductions


class MaskedConst:
    """numpy.ma.masked"""

    __array_priority__ = 15
    __hash__ = object.__hash__

    def __getattr__(self, attr):
        from .ctx import unknown_attr

        return unknown_attr("numpy.ma.core.MaskedConstant", attr, ())

    def __repr__(self):
        return "masked"

    def __format__(self, spec):
        return "--"

    def _all_masked(self, o):
        if isinstance(o, MArr):
            o = o._data
        if isinstance(o, Arr):
            # multiply(ndarr, masked): data under the mask = left operand's data
            return MArr(o.copy(), const_arr(o.n, "b", (False, True)))
        return self

    __mul__ = __rmul__ = __add__ = __radd__ = __sub__ = __rsub__ = __truediv__ = __rtruediv__ = _all_masked

    def _cmp(self, o):
        if isinstance(o, (Arr, MArr)):
            raise Unsupported("comparison of masked constant with array")
        return self

    __lt__ = __le__ = __gt__ = __ge__ = _cmp

    def __bool__(self):
        return False  # bool(np.ma.masked) is False (data 0.0)


masked = MaskedConst()


def _skolem(name):
    return cur().fresh(name, z3.IntSort())


def reduce_any(a, present):
    """any over a boolean array restricted to `present` positions (None = all).
    Returns the truth term; introduces a witness and a universal fact."""
    n = a.n
    kind = a.kind
    c = alg.as_concrete(n)

    def tr(i):
        t = _truth_pair(a.elem(i), kind)
        return t if present is None else alg.and_(present(i), t)

    if c is not None and c <= 8:
        return SBool(alg.or_(*[tr(i) for i in range(c)]))
    ctx = cur()
    b = ctx.fresh("any", z3.BoolSort())
    w = _skolem("anyw")
    ctx.assume(alg.implies(b, alg.and_(in_range(w, n), tr(w))))
    ctx.add_fact("any-false", lambda i: alg.implies(alg.and_(alg.not_(b), in_range(i, n)), alg.not_(tr(i))))
    ctx.index_seeds.append(w)
    return SBool(b)


def reduce_all(a, present):
    n = a.n
    kind = a.kind
    c = alg.as_concrete(n)

    def tr(i):
        t = _truth_pair(a.elem(i), kind)
        return t if present is None else alg.implies(present(i), t)

    if c is not None and c <= 8:
        return SBool(alg.and_(*[tr(i) for i in range(c)]))
    ctx = cur()
    b = ctx.fresh("all", z3.BoolSort())
    w = _skolem("allw")
    ctx.assume(alg.implies(alg.not_(b), alg.and_(in_range(w, n), alg.not_(tr(w)))))
    ctx.add_fact("all-true", lambda i: alg.implies(alg.and_(b, in_range(i, n)), tr(i)))
    ctx.index_seeds.append(w)
    return SBool(b)


def count_true(n, pred, name="cnt"):
    """number of positions in [0,n) satisfying pred, as an abstract integer with the
    facts the code relies on: 0 <= c <= n, c == 0 iff none, c == n iff all"""
    c = alg.as_concrete(n)
    if c is not None and c <= 8:
        tot = 0
        for i in range(c):
            tot = alg.add(tot, alg.ite(pred(i), 1, 0))
        return tot
    ctx = cur()
    cnt = ctx.fresh(name, z3.IntSort())
    w0 = _skolem(name + "w")
    w1 = _skolem(name + "v")
    ctx.assume(alg.and_(alg.le(0, cnt), alg.le(cnt, n)))
    ctx.assume(alg.implies(alg.gt(cnt, 0), alg.and_(in_range(w0, n), pred(w0))))
    ctx.assume(alg.implies(alg.lt(cnt, n), alg.and_(in_range(w1, n), alg.not_(pred(w1)))))
    ctx.add_fact(name + "-zero", lambda i: alg.implies(alg.and_(alg.eq(cnt, 0), in_range(i, n)), alg.not_(pred(i))))
    ctx.add_fact(name + "-full", lambda i: alg.implies(alg.and_(alg.eq(cnt, n), in_range(i, n)), pred(i)))
    ctx.index_seeds.extend([w0, w1])
    return cnt


# --------------------------------------------------------------------------- MArr


class MArr:
    """numpy.ma.MaskedArray (1-D).  mask None = nomask."""

    def __getattr__(self, attr):
        from .ctx import unknown_attr

        return unknown_attr("numpy.ma.MaskedArray", attr, ("calls", "fn", "fv", "fsec", "fns", "fnat", "ns", "secs", "base", "off", "is_input", "name", "readonly", "telescopes", "diff_of", "frame"))

    ndim = 1
    __hash__ = None
    __array_priority__ = 15

    def __init__(self, data, mask=None):
        assert isinstance(data, Arr), type(data)
        assert mask is None or (isinstance(mask, Arr) and mask.kind == "b")
        self._data = data
        self._mask = mask
        self.fill_value = None

    @property
    def data(self):
        return self._data

    @property
    def mask(self):
        if self._mask is None:
            return NoMask
        return self._mask

    @property
    def n(self):
        return self._data.n

    @property
    def kind(self):
        return self._data.kind

    @property
    def unit(self):
        return self._data.unit

    @property
    def size(self):
        return self._data.size

    @property
    def shape(self):
        return self._data.shape

    @property
    def dtype(self):
        return self._data.dtype

    @property
    def strides(self):
        return self._data.strides

    def __len__(self):
        return len(self._data)

    def m(self, i):
        """mask term at i"""
        if self._mask is None:
            return False
        return self._mask.val(i)

    def elem(self, i):
        return self._data.elem(i)

    def maskarr(self):
        if self._mask is None:
            return const_arr(self.n, "b", (False, False))
        return self._mask

    def copy(self):
        return MArr(self._data.copy(), None if self._mask is None else self._mask.copy())

    def flatten(self):
        return self.copy()

    def reshape(self, *shape):
        d = self._data.reshape(*shape)
        m = None if self._mask is None else View(self._mask, 0, self._mask.n)
        return MArr(d, m)

    def ravel(self):
        # 1-D: a new masked array over the same data and mask (as reshape to its own shape)
        return self.reshape(self._data.n)

    def astype(self, t):
        d = dtype_of(t)
        return MArr(cast_arr(self._data, d.kind, d.unit), None if self._mask is None else self._mask.copy())

    def fill(self, v):
        # ndarray.fill on the data; the mask is untouched
        self._data.fill(v)

    def filled(self, fill_value=None):
        return ma_filled(self, fill_value)

    def count(self):
        n = self.n
        if self._mask is None:
            return _len_value(n)
        mk = self._mask
        c = count_true(n, lambda i: alg.not_(mk.val(i)), "count")
        return SNum(c, False, "pyi") if alg.is_sym(c) else c

    def any(self):
        # MaskedArray.any: masked values are considered False; all masked -> masked
        n = self.n
        if self._mask is None:
            return reduce_any(self._data, None)
        mk = self._mask
        allm = reduce_all(mk, None)
        if _fork(alg.and_(allm.t, alg.gt(n, 0))):
            return masked
        if _fork(alg.eq(n, 0)):
            # empty masked array: np.ma any of empty -> masked? conformance-checked
            return masked if self._mask is not None else SBool(False)
        return reduce_any(self._data, lambda i: alg.not_(mk.val(i)))

    def all(self):
        raise Unsupported("MaskedArray.all")

    def nonzero(self):
        g, k = self._data.getter(), self._data.kind
        mg = self._mask.getter() if self._mask is not None else (lambda i: (False, False))
        return (IdxSet(self.n, lambda i: alg.and_(alg.not_(mg(i)[1]), _truth_pair(g(i), k))),)

    def __iter__(self):
        n = alg.as_concrete(self.n)
        if n is None:
            raise Unsupported("iteration over a symbolic-length masked array")
        return iter([self[i] for i in range(n)])

    def std(self, *a, **k):
        from .npfuncs import np_std

        return np_std(self, *a, **k)

    # ---- indexing
    def __getitem__(self, idx):
        if isinstance(idx, tuple) and len(idx) == 1:
            idx = idx[0]
        if isinstance(idx, slice):
            d = arr_getitem(self._data, idx)
            mk = None if self._mask is None else arr_getitem(self._mask, idx)
            return MArr(d, mk)
        if isinstance(idx, (int, SNum)) and not isinstance(idx, bool):
            s = arr_getitem(self._data, idx)  # raises IndexError when out of range
            if self._mask is None:
                return s
            i = raw(idx)
            i = alg.ite(alg.lt(i, 0), alg.add(self.n, i), i) if (alg.is_sym(i) or alg.is_sym(self.n)) else (self.n + i if i < 0 else i)
            if _fork(self._mask.val(i)):
                return masked
            return s
        b = _as_bool_index(idx)
        if b is not None:
            raise Unsupported("boolean selection from a masked array")
        raise Unsupported("MArr getitem %r" % (type(idx),))

    def __setitem__(self, indx, value):
        ma_setitem(self, indx, value)

    # ---- operators
    def _arith(self, o, op, swap=False):
        if isinstance(o, MaskedConst):
            return masked._all_masked(self)
        if not isinstance(o, (Arr, MArr)) and not is_scalar(o):
            if o is None:
                raise TypeError("unsupported operand type(s): 'MaskedArray' and 'NoneType'")
            return NotImplemented
        return ma_binop(op, o, self) if swap else ma_binop(op, self, o)

    def __add__(self, o):
        return self._arith(o, "add")

    def __radd__(self, o):
        return self._arith(o, "add", True)

    def __sub__(self, o):
        return self._arith(o, "sub")

    def __rsub__(self, o):
        return self._arith(o, "sub", True)

    def __mul__(self, o):
        return self._arith(o, "mul")

    def __rmul__(self, o):
        return self._arith(o, "mul", True)

    def __truediv__(self, o):
        return self._arith(o, "div")

    def __rtruediv__(self, o):
        return self._arith(o, "div", True)

    def _cmp(self, o, op):
        if isinstance(o, MaskedConst):
            raise Unsupported("array compared with masked constant")
        if not isinstance(o, (Arr, MArr)) and not is_scalar(o):
            if o is None:
                if op in ("eq", "ne"):
                    raise Unsupported("masked array == None")
                raise TypeError("'%s' not supported between instances of 'MaskedArray' and 'NoneType'" % op)
            return NotImplemented
        return ma_compare(op, self, o)

    def __lt__(self, o):
        return self._cmp(o, "lt")

    def __le__(self, o):
        return self._cmp(o, "le")

    def __gt__(self, o):
        return self._cmp(o, "gt")

    def __ge__(self, o):
        return self._cmp(o, "ge")

    def __eq__(self, o):
        return self._cmp(o, "eq")

    def __ne__(self, o):
        return self._cmp(o, "ne")

    # ufunc route (__array_wrap__): raw data operation, mask = union of the input masks
    def __and__(self, o):
        return ma_ufunc2("and", self, o)

    def __rand__(self, o):
        return ma_ufunc2("and", o, self)

    def __or__(self, o):
        return ma_ufunc2("or", self, o)

    def __ror__(self, o):
        return ma_ufunc2("or", o, self)

    def __xor__(self, o):
        return ma_ufunc2("xor", self, o)

    def __rxor__(self, o):
        return ma_ufunc2("xor", o, self)

    def __invert__(self):
        return ma_ufunc1("invert", self)

    def __neg__(self):
        return ma_ufunc1("neg", self)

    def __abs__(self):
        return ma_ufunc1("abs", self)

    def __bool__(self):
        n = alg.as_concrete(self.n)
        if n == 1:
            x = self[0]
            return bool(x)
        raise ValueError("The truth value of an array with more than one element is ambiguous")

    def __repr__(self):
        return "MArr<%s,n=%s,%s>" % (self.kind, self.n, "nomask" if self._mask is None else "mask")

    def __format__(self, spec):
        return repr(self)


class _NoMaskType:
    """np.ma.nomask (numpy.False_) as the value of `.mask`"""

    def __bool__(self):
        return False

    def __repr__(self):
        return "nomask"


NoMask = _NoMaskType()


def getmask(x):
    if isinstance(x, MArr):
        return x._mask
    return None


def getdata(x):
    if isinstance(x, MArr):
        return x._data
    return x


def _mask_getter(x, imap):
    mk = getmask(x)
    if mk is None:
        return None
    g = mk.getter()
    return lambda i: g(imap(i))[1]


def _union(getters):
    gs = [g for g in getters if g is not None]
    if not gs:
        return None
    return lambda i: alg.or_(*[g(i) for g in gs])


def ma_binop(op, a, b):
    """numpy.ma add/subtract/multiply (_MaskedBinaryOperation) and true_divide
    (_DomainedBinaryOperation)"""
    da, db = getdata(a), getdata(b)
    n1, k1, g1 = _operand(da)
    n2, k2, g2 = _operand(db)
    n, (m1, m2) = broadcast([n1, n2])
    kind = _res_kind(op, k1, k2)
    unit = None
    if kind in ("m", "M"):
        unit = getattr(da, "unit", None) or getattr(db, "unit", None)
    mu = _union([_mask_getter(a, m1), _mask_getter(b, m2)])
    if op == "div":
        # domain: divisor == 0 (|a|*tiny >= |b| in floats) or result not finite (nan operand)
        def dom(i):
            x, y = g1(m1(i)), g2(m2(i))
            return alg.or_(alg.eq(y[1], 0), x[0], y[0])

        mfull = (lambda i: alg.or_(dom(i), mu(i))) if mu is not None else dom
    else:
        mfull = mu

    def elem(i):
        x, y = g1(m1(i)), g2(m2(i))
        r = pair_op(op, x, y, k1, k2)
        if mfull is None:
            return r
        mk = mfull(i)
        # where masked: result reverts to the left operand's data (np.copyto(result, da, where=m))
        xl = _cast_pair(x if k1 != "b" else (False, alg.ite(x[1], 1, 0)), kind) if kind != "b" else x
        return (alg.ite(mk, xl[0], r[0]), alg.ite(mk, xl[1], r[1]))

    data = Arr(n, kind, elem, unit)
    mask = None if mfull is None else Arr(n, "b", lambda i: (False, mfull(i)))
    return MArr(data, mask)


def ma_compare(op, a, b):
    """MaskedArray._comparison"""
    da, db = getdata(a), getdata(b)
    n1, k1, g1 = _operand(da)
    n2, k2, g2 = _operand(db)
    n, (m1, m2) = broadcast([n1, n2])
    sm, om = _mask_getter(a, m1), _mask_getter(b, m2)
    mu = _union([sm, om])

    def elem(i):
        r = pair_op(op, g1(m1(i)), g2(m2(i)), k1, k2)
        if mu is not None and op in ("eq", "ne"):
            s = sm(i) if sm is not None else False
            o = om(i) if om is not None else False
            cm = alg.iff(s, o) if op == "eq" else alg.xor(s, o)
            return (False, alg.ite(mu(i), cm, r[1]))
        return r

    data = Arr(n, "b", elem)
    mask = None if mu is None else Arr(n, "b", lambda i: (False, mu(i)))
    return MArr(data, mask)


def ma_ufunc2(op, a, b):
    """plain ufunc with a masked operand (__array_wrap__): raw operation on the data, mask =
    union of getmaskarray(inputs) - always a full mask array"""
    da, db = getdata(a), getdata(b)
    if isinstance(a, MaskedConst) or isinstance(b, MaskedConst):
        raise Unsupported("ufunc with masked constant")
    n1, k1, g1 = _operand(da)
    n2, k2, g2 = _operand(db)
    n, (m1, m2) = broadcast([n1, n2])
    kind = _res_kind(op, k1, k2) if op not in ("minimum", "maximum") else ("f" if "f" in (k1, k2) else k1)
    mu = _union([_mask_getter(a, m1), _mask_getter(b, m2)])
    data = Arr(n, kind, lambda i: pair_op(op, g1(m1(i)), g2(m2(i)), k1, k2))
    mask = Arr(n, "b", (lambda i: (False, mu(i))) if mu is not None else (lambda i: (False, False)))
    return MArr(data, mask)


def ma_ufunc1(op, a):
    d = a._data
    g = d.getter()
    k = d.kind
    data = Arr(d.n, _unop_kind(op, k), lambda i: pair_unop(op, g(i), k), d.unit)
    mk = a._mask
    mask = mk.copy() if mk is not None else const_arr(d.n, "b", (False, False)).copy()
    return MArr(data, mask)


def ma_setitem(self, indx, value):
    """MaskedArray.__setitem__ (soft mask)"""
    if isinstance(indx, tuple) and len(indx) == 1:
        indx = indx[0]
    if isinstance(value, MaskedConst):
        if self._mask is None:
            self._mask = const_arr(self.n, "b", (False, False)).copy()
        arr_setitem(self._mask, getdata(indx) if isinstance(indx, MArr) else indx, True)
        return
    dval = getdata(value)
    mval = getmask(value)
    if self._mask is None:
        arr_setitem(self._data, indx, dval)
        if mval is not None:
            self._mask = const_arr(self.n, "b", (False, False)).copy()
            arr_setitem(self._mask, indx, mval)
        return
    if isinstance(indx, MArr) and not isinstance(value, MArr):
        arr_setitem(self._data, indx._data, dval)
        return
    arr_setitem(self._data, indx, dval)
    arr_setitem(self._mask, indx, mval if mval is not None else False)


def ma_filled(a, fill_value=None):
    if not isinstance(a, MArr):
        return a
    if a._mask is None:
        return a._data
    if fill_value is None:
        raise Unsupported("filled() with the default fill value")
    p = _cast_pair(_scalar_pair(fill_value), a.kind)
    d, mk = a._data.getter(), a._mask.getter()
    return Arr(a.n, a.kind, lambda i: (alg.ite(mk(i)[1], p[0], d(i)[0]), alg.ite(mk(i)[1], p[1], d(i)[1])), a.unit)


# --------------------------------------------------------------------------- numpy.ma namespace


def _as_arr(x, dtype=None, copy=True):
    """np.array(x[, dtype]) for the carriers of the abstract series: model arrays and python
    sequences of scalars"""
    if isinstance(x, MArr):
        # np.array(MaskedArray) drops the mask and keeps the data underneath
        a = x._data.copy() if copy else x._data
    elif isinstance(x, Arr):
        a = x.copy() if copy else x
    elif isinstance(x, (list, tuple)):
        if any(isinstance(v, (list, tuple, Arr, MArr)) for v in x):
            raise Unsupported("nested sequence to array")
        if dtype is not None:
            d = dtype_of(dtype)
            return from_values(list(x), d.kind, d.unit)
        kinds = set()
        for v in x:
            if v is None:
                raise Unsupported("object array from None")
            kinds.add(_scalar_kind(v))
        kind = "f" if "f" in kinds or not kinds else ("i" if "i" in kinds or "u" in kinds else "b")
        return from_values(list(x), kind)
    elif hasattr(x, "__pyvc_raw__") and dtype is None:
        # np.array(carrier) without a dtype: an array of the carrier's own (unknown) element type; the
        # one thing the normalisation may do with it is .astype(float64)
        return x.__pyvc_raw__()
    elif hasattr(x, "__pyvc_array__"):
        a = x.__pyvc_array__()
        if copy:
            a = a.copy()
    elif is_scalar(x):
        raise Unsupported("0-d array")
    else:
        raise Unsupported("np.array(%r)" % (type(x),))
    if dtype is not None:
        d = dtype_of(dtype)
        if d.kind != a.kind or (d.unit and d.unit != a.unit):
            a = cast_arr(a, d.kind, d.unit)
    return a


def masked_where_invalid(a, copy=True):
    """np.ma.masked_invalid: result mask = ~isfinite(data) | old mask, always a full mask array"""
    if isinstance(a, Arr2):
        return a.masked_invalid()
    if isinstance(a, MArr):
        d = a._data.copy() if copy else a._data
        fd = d.getter()
        om = a._mask.getter() if a._mask is not None else None
        inval = d.kind in ("f", "m", "M")
        if om is not None:
            mask = Arr(d.n, "b", lambda i: (False, alg.or_(fd(i)[0] if inval else False, om(i)[1])))
        else:
            mask = Arr(d.n, "b", lambda i: (False, fd(i)[0] if inval else False))
        return MArr(d, mask)
    a = _as_arr(a, copy=False)
    d = a.copy() if copy else a
    fd = d.getter()
    if d.kind in ("f", "m", "M"):
        mask = Arr(d.n, "b", lambda i: (False, fd(i)[0]))
    else:
        mask = const_arr(d.n, "b", (False, False)).copy()
    return MArr(d, mask)


class Arr2:
    """2-D strided window (flat_line_test only): rows x cols, elem(r, c)"""

    def __getattr__(self, attr):
        from .ctx import unknown_attr

        return unknown_attr("numpy.ndarray", attr, ("calls", "fn", "fv", "fsec", "fns", "fnat", "ns", "secs", "base", "off", "is_input", "name", "readonly", "telescopes", "diff_of", "frame"))

    ndim = 2

    def __init__(self, rows, cols, elem, kind="f", mask=None):
        self.rows, self.cols, self._elem, self.kind, self._mask = rows, cols, elem, kind, mask

    @property
    def shape(self):
        return (_len_value(self.rows), _len_value(self.cols))

    def elem(self, r, c):
        return self._elem(r, c)

    def __getitem__(self, idx):
        if isinstance(idx, slice):
            idx = (idx, slice(None))
        if isinstance(idx, tuple) and len(idx) == 2 and all(isinstance(s, slice) for s in idx):
            rlo, rn = norm_slice(idx[0], self.rows)
            clo, cn = norm_slice(idx[1], self.cols)
            e = self._elem
            m = self._mask
            return Arr2(rn, cn, lambda r, c: e(alg.add(r, rlo), alg.add(c, clo)), self.kind, None if m is None else (lambda r, c: m(alg.add(r, rlo), alg.add(c, clo))))
        raise Unsupported("2-D getitem")

    def min(self, axis=None, **k):  # noqa: A003
        from .npfuncs import np_min

        if k:
            raise Unsupported("ndarray.min keywords")
        return np_min(self, axis)

    def max(self, axis=None, **k):  # noqa: A003
        from .npfuncs import np_max

        if k:
            raise Unsupported("ndarray.max keywords")
        return np_max(self, axis)

    def masked_invalid(self):
        e = self._elem
        m = self._mask
        if m is None:
            return Arr2(self.rows, self.cols, e, self.kind, lambda r, c: e(r, c)[0])
        return Arr2(self.rows, self.cols, e, self.kind, lambda r, c: alg.or_(m(r, c), e(r, c)[0]))


@contextlib.contextmanager
def _null_cm(*a, **k):
    yield


from .ctx import guard_methods as _gm  # noqa: E402

for _cls, _lab in ((Arr, "numpy.ndarray"), (MArr, "numpy.ma.MaskedArray"), (Selection, "numpy.ndarray"), (Arr2, "numpy.ndarray")):
    _gm(_cls, _lab)


def _fill_missing_operators(cls, label):
    """an operator the model class does not define would make Python raise TypeError in the frame of the code
    under test (and an augmented assignment would silently fall back to rebinding): Unsupported instead"""
    names = ["add", "sub", "mul", "truediv", "floordiv", "mod", "pow", "matmul", "and", "or", "xor", "lshift", "rshift"]
    for nm in names:
        for pre in ("__%s__", "__r%s__", "__i%s__"):
            d = pre % nm
            if d not in cls.__dict__ and not any(d in b.__dict__ for b in cls.__mro__[1:-1]):
                def f(self, o, _d=d):
                    raise Unsupported("%s.%s is not modelled" % (label, _d))

                setattr(cls, d, f)
    for d in ("__neg__", "__pos__", "__abs__", "__invert__"):
        if d not in cls.__dict__ and not any(d in b.__dict__ for b in cls.__mro__[1:-1]):
            def g(self, _d=d):
                raise Unsupported("%s.%s is not modelled" % (label, _d))

            setattr(cls, d, g)


for _cls, _lab in ((Arr, "numpy.ndarray"), (MArr, "numpy.ma.MaskedArray"), (Selection, "numpy.ndarray"), (Arr2, "numpy.ndarray")):
    _fill_missing_operators(_cls, _lab)
