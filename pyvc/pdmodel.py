"""Contract model of the pandas vocabulary used by the numeric core (DESIGN T2).

Series / rolling windows (attenuated_signal_test) and DatetimeIndex period attributes
(climatology).  Statistics over a window are *uninterpreted*: the model returns fresh function
symbols, records the arguments the code passed (ghost state) and states only the NaN rule of
`Series.rolling(f"{p}s", min_periods=m)`:
   window of row k = rows j with t[k]-p < t[j] <= t[k]      (closed='right', the default)
   .std()                     NaN iff fewer than max(m, 2) non-NaN values in the window (m default 1)
   .apply(np.ptp, raw=True)   NaN iff fewer than m non-NaN values in the window or the window holds a NaN
In the concrete reading the real pandas is called, so the conformance run compares the model's
control flow around these calls, and the stand-ins compare the NaN rule with pandas itself.
"""
import types
from fractions import Fraction

import z3

from . import alg
from . import npmodel as M
from .ctx import Unsupported, cur
from .npmodel import Arr, MArr
from .values import SBool, SNum, raw, token_value


def _concrete_list(a):
    from .npfuncs import _concrete_values

    return _concrete_values(a)


class Series:

    def __getattr__(self, attr):
        from .ctx import unknown_attr

        return unknown_attr("pandas.Series", attr, ("calls", "fn", "fv", "fsec", "fns", "fnat", "ns", "secs", "base", "off", "is_input", "name", "readonly", "telescopes", "diff_of", "frame"))
    __hash__ = None
    __array_priority__ = 1000

    def __init__(self, data=None, index=None, dtype=None):
        if data is None:
            data = M.from_values([], "f" if dtype is None else M.dtype_of(dtype).kind)
        if isinstance(data, MArr):
            # pd.Series(masked array): masked entries become NaN
            d, mk = data._data.getter(), (data._mask.getter() if data._mask is not None else None)
            kind = data.kind
            if mk is not None:
                data = Arr(data.n, kind, lambda i: (alg.or_(d(i)[0], mk(i)[1]), d(i)[1]), data.unit)
            else:
                data = data._data.copy()
        elif isinstance(data, Arr):
            data = data.copy()
        else:
            raise Unsupported("pd.Series(%r)" % (type(data),))
        self.values_arr = data
        if index is not None:
            if isinstance(index, MArr):
                index = index._data
            if not isinstance(index, Arr):
                raise Unsupported("Series index %r" % (type(index),))
            if not M._same_len(index.n, data.n):
                raise ValueError("Length of values does not match length of index")
            index = index.copy()
        self.index_arr = index

    def __pyvc_array__(self):
        return self.values_arr

    @property
    def n(self):
        return self.values_arr.n

    def to_numpy(self):
        return self.values_arr.copy()

    @property
    def values(self):
        return self.values_arr

    @property
    def dtype(self):
        return self.values_arr.dtype

    def rolling(self, window, min_periods=None):
        return Rolling(self, window, min_periods)

    def _cmp(self, o, op):
        return Series(M.ew_binop(op, self.values_arr, o), self.index_arr)

    def __lt__(self, o):
        return self._cmp(o, "lt")

    def __le__(self, o):
        return self._cmp(o, "le")

    def __gt__(self, o):
        return self._cmp(o, "gt")

    def __ge__(self, o):
        return self._cmp(o, "ge")


class Rolling:

    def __getattr__(self, attr):
        from .ctx import unknown_attr

        return unknown_attr("pandas.core.window.rolling.Rolling", attr, ("calls", "fn", "fv", "fsec", "fns", "fnat", "ns", "secs", "base", "off", "is_input", "name", "readonly", "telescopes", "diff_of", "frame"))
    def __init__(self, series, window, min_periods):
        c = cur()
        c.use("pandas.Series.rolling(time window).std/apply")
        if series.index_arr is None or series.index_arr.kind != "M":
            raise ValueError("window must be an integer 0 or greater")
        if not isinstance(window, str):
            raise Unsupported("integer rolling window")
        tv = token_value(window)
        if tv is None:
            if not window.endswith("s"):
                raise Unsupported("rolling window %r" % window)
            period = SNum(alg.conc(float(window[:-1])), False, "pyf")
        else:
            pre, period, suf = tv
            if pre != "" or suf != "s":
                raise Unsupported("rolling window format %r" % window)
        self.series = series
        self.period = period
        if min_periods is not None and not isinstance(min_periods, (int, SNum)):
            raise Unsupported("min_periods %r" % (min_periods,))
        self.min_periods = min_periods
        # pandas: the window must be positive, min_periods >= 0, index monotonic
        pv = period.val
        c.ensure(alg.and_(alg.not_(period.nan), alg.gt(pv, 0)), ValueError, "window must be positive")
        if min_periods is not None:
            c.ensure(alg.ge(raw(min_periods), 0), ValueError, "min_periods must be >= 0")
        n = series.n
        t = series.index_arr.getter()
        if alg.as_concrete(n) is None:
            k = c.fresh("mono", z3.IntSort())
            bad = alg.and_(alg.le(0, k), alg.lt(alg.add(k, 1), n), alg.gt(t(k)[1], t(alg.add(k, 1))[1]))
            if alg.simp(bad) is not False:
                c.index_seeds.append(k)
                if c.fork(bad):
                    raise ValueError("index values must be monotonic")
                c.add_fact("index-monotonic", lambda i: alg.implies(alg.and_(alg.le(0, i), alg.lt(alg.add(i, 1), n)), alg.le(t(i)[1], t(alg.add(i, 1))[1])))
        else:
            tc = _concrete_list(series.index_arr)
            if tc is not None and any(a[1] > b[1] for a, b in zip(tc, tc[1:])):
                raise ValueError("index values must be monotonic")
        self.ghost = None

    def _setup(self, stat):
        c = cur()
        s = self.series
        n = s.n
        vals = s.values_arr.getter()
        conc = _concrete_list(s.values_arr)
        tcon = _concrete_list(s.index_arr)
        pc = alg.as_concrete(self.period.val)
        mp = self.min_periods
        mpc = None if mp is None else alg.as_concrete(raw(mp))
        if conc is not None and tcon is not None and pc is not None and (mp is None or mpc is not None):
            return self._concrete(stat, conc, tcon, pc, mpc)
        from .npfuncs import memo_symbol, stable_key

        pv_ = self.period.val
        wkey = (stable_key(s.values_arr), stable_key(s.index_arr), pv_.sexpr() if alg.is_sym(pv_) else str(pv_))
        wcount = memo_symbol(("wcount",) + wkey, lambda: c.fresh_fun("wcount", z3.IntSort(), z3.IntSort()))
        wnan = memo_symbol(("wnan",) + wkey, lambda: c.fresh_fun("wnan", z3.IntSort(), z3.BoolSort()))
        wval = memo_symbol(("w" + stat,) + wkey, lambda: c.fresh_fun("w" + stat, z3.IntSort(), z3.RealSort()))
        c.add_fact("wcount-nonneg", lambda k: alg.implies(M.in_range(k, n), alg.and_(alg.ge(wcount(alg.lift(k)), 0), alg.ge(wval(alg.lift(k)), 0))))
        # the row itself lies in its own window (period > 0)
        c.add_fact("own-row-in-window", lambda k: alg.implies(M.in_range(k, n), alg.ite(vals(k)[0], wnan(alg.lift(k)), alg.ge(wcount(alg.lift(k)), 1))))
        # a NaN in the window is a NaN at some row of the window (rows j <= k with t[j] > t[k] - p)
        wnanw = memo_symbol(("wnanw",) + wkey, lambda: c.fresh_fun("wnanw", z3.IntSort(), z3.IntSort()))
        tt = s.index_arr.getter()
        pns = alg.mul(self.period.val, 10**9)

        def nan_witness(k):
            j = wnanw(alg.lift(k))
            return alg.implies(alg.and_(M.in_range(k, n), wnan(alg.lift(k))), alg.and_(alg.le(0, j), alg.le(j, k), alg.gt(tt(j)[1], alg.sub(tt(k)[1], pns)), vals(j)[0]))

        c.add_fact("wnan-witness", nan_witness)
        minp = 1 if mp is None else raw(mp)
        if stat == "std":
            isnan = lambda k: alg.lt(wcount(alg.lift(k)), alg.max_(minp, 2))  # noqa: E731
        else:
            isnan = lambda k: alg.or_(alg.lt(wcount(alg.lift(k)), minp), wnan(alg.lift(k)))  # noqa: E731
        if not hasattr(c, "ghost"):
            c.ghost = {}
        c.ghost.setdefault("rolling", []).append(
            {"stat": stat, "values": s.values_arr.copy(), "index": s.index_arr.copy(), "period": self.period, "min_periods": mp, "wcount": wcount, "wnan": wnan, "wval": wval, "isnan": isnan}
        )
        out = Arr(n, "f", lambda k: (isnan(k), wval(alg.lift(k))))
        return Series(out, s.index_arr)

    def _concrete(self, stat, conc, tcon, pc, mpc):
        """concrete reading: the real pandas"""
        import numpy as np
        import pandas as pd

        vals = np.array([np.nan if p[0] else float(p[1]) for p in conc], dtype=np.float64)
        idx = np.array([int(p[1]) for p in tcon], dtype="datetime64[ns]")
        ser = pd.Series(vals, index=idx)
        w = ser.rolling("%ss" % (float(pc),), min_periods=mpc)
        r = w.std() if stat == "std" else w.apply(np.ptp, raw=True)
        out = M.from_values([None if v != v else Fraction(float(v)) for v in r.to_numpy().tolist()], "f")
        return Series(out, self.series.index_arr)

    def std(self):
        return self._setup("std")

    def apply(self, func, raw=False, engine=None):  # noqa: A002
        from . import npfuncs

        if engine is not None:
            # numba is not installed: pandas raises ImportError, the code falls back
            raise ImportError("Missing optional dependency 'numba'")
        if getattr(func, "__wrapped__", func) is not npfuncs.np_ptp or raw is not True:
            raise Unsupported("rolling.apply(%r, raw=%r)" % (func, raw))
        return self._setup("ptp")


def _series_ctor(data=None, index=None, dtype=None):
    return Series(data, index, dtype)


from .npfuncs import _ModelNS  # noqa: E402

PD = _ModelNS("pandas")
PD.__pyvc_model__ = True
PD.Series = _series_ctor


# =========================================================================== calendar / index
_PERIOD_FUNS = {}


def period_fun(name):
    """uninterpreted calendar attribute of a timestamp (ns since epoch) - e.g. month(t).  The
    calendar arithmetic itself is pandas' (T2); the concrete reading calls pandas."""
    if name not in _PERIOD_FUNS:
        _PERIOD_FUNS[name] = z3.Function("cal_" + name, z3.IntSort(), z3.IntSort())
    return _PERIOD_FUNS[name]


def period_value(name, tns):
    """value of the calendar attribute `name` at timestamp tns (algebra value)"""
    c = alg.as_concrete(tns) if alg.is_sym(tns) else tns
    if c is not None:
        import pandas as pd

        ts = pd.Timestamp(int(c))
        if name in ("week", "weekofyear"):
            return int(ts.isocalendar().week)
        return int(getattr(ts, name))
    return period_fun("week" if name == "weekofyear" else name)(tns)


class Timestamp:
    """pd.Timestamp(x) for a datetime64[ns] scalar"""

    def __getattr__(self, attr):
        from .ctx import unknown_attr

        return unknown_attr("pandas.Timestamp", attr, ("calls", "fn", "fv", "fsec", "fns", "fnat", "ns", "secs", "base", "off", "is_input", "name", "readonly", "telescopes", "diff_of", "frame"))

    __hash__ = object.__hash__  # identity: window bounds are dictionary-key material in Config.contexts

    def __bool__(self):
        return True

    def __deepcopy__(self, memo):
        return self

    def __init__(self, ns):
        self.ns = ns

    def _o(self, o):
        if isinstance(o, Timestamp):
            return o.ns
        if isinstance(o, SNum) and o.kind == "M":
            return o.val
        return None

    def _cmp(self, o, f):
        v = self._o(o)
        if v is None:
            return NotImplemented
        return SBool(f(self.ns, v))

    def __lt__(self, o):
        return self._cmp(o, alg.lt)

    def __le__(self, o):
        return self._cmp(o, alg.le)

    def __gt__(self, o):
        return self._cmp(o, alg.gt)

    def __ge__(self, o):
        return self._cmp(o, alg.ge)

    def __eq__(self, o):
        return self._cmp(o, alg.eq)

    def __format__(self, spec):
        return "<Timestamp>"


class _TimestampNS:
    def __call__(self, x):
        if isinstance(x, Timestamp):
            return x
        if isinstance(x, SNum) and x.kind == "M":
            if x.unit != "ns":
                raise Unsupported("Timestamp unit")
            return Timestamp(x.val)
        import pandas as pd

        if isinstance(x, (str, pd.Timestamp)):
            return Timestamp(int(pd.Timestamp(x).value))
        raise Unsupported("pd.Timestamp(%r)" % (type(x),))

    @staticmethod
    def now():
        import pandas as pd

        return pd.Timestamp.now()


_PERIOD_NAMES = ("year", "month", "day", "hour", "minute", "second", "dayofyear", "day_of_year", "dayofweek", "day_of_week", "weekday", "quarter", "days_in_month")


class IsoCal:
    def __init__(self, week):
        self.week = week


class DatetimeIndex:
    __hash__ = None
    __array_priority__ = 1000

    def __init__(self, data):
        if isinstance(data, DatetimeIndex):
            data = data.arr
        if isinstance(data, MArr):
            data = data._data
        if not isinstance(data, Arr) or data.kind != "M":
            raise Unsupported("DatetimeIndex(%r)" % (type(data),))
        self.arr = data.copy()
        cur().use("pandas.DatetimeIndex calendar attributes")

    @property
    def n(self):
        return self.arr.n

    def __pyvc_array__(self):
        return self.arr

    def __pyvc_len__(self):
        return M._len_value(self.arr.n)

    def to_numpy(self):
        return self.arr.copy()

    @property
    def dtype(self):
        return self.arr.dtype

    def isocalendar(self):
        g = self.arr.getter()
        return IsoCal(IntSeries(Arr(self.arr.n, "i", lambda i: (False, period_value("week", g(i)[1]))), frame=True))

    def __getattr__(self, name):
        if name in _PERIOD_NAMES:
            g = self.arr.getter()
            return IntIndex(Arr(self.arr.n, "i", lambda i: (False, period_value(name, g(i)[1]))))
        from .ctx import unknown_attr

        return unknown_attr("pandas.DatetimeIndex", name, ("calls", "fn", "fv", "fsec", "fns", "fnat", "ns", "secs", "base", "off", "is_input", "name", "frame"))

    def _cmp(self, o, op):
        if isinstance(o, Timestamp):
            o = SNum(o.ns, False, "M", "ns")
        if isinstance(o, SNum) and o.kind == "M":
            return M.ew_binop(op, self.arr, o)
        raise TypeError("Invalid comparison between dtype=datetime64[ns] and %s" % type(o).__name__)

    def __lt__(self, o):
        return self._cmp(o, "lt")

    def __le__(self, o):
        return self._cmp(o, "le")

    def __gt__(self, o):
        return self._cmp(o, "gt")

    def __ge__(self, o):
        return self._cmp(o, "ge")

    def __getitem__(self, idx):
        if idx is True:
            raise ValueError("Multi-dimensional indexing (e.g. `obj[:, None]`) is no longer supported. Convert to a numpy array before indexing instead.")
        r = self.arr[idx]
        if isinstance(r, Arr):
            return DatetimeIndex(r)
        return r


class IntIndex:
    """pd.Index of integers: comparisons give plain boolean ndarrays"""

    def __getattr__(self, attr):
        from .ctx import unknown_attr

        return unknown_attr("pandas.Index", attr, ("calls", "fn", "fv", "fsec", "fns", "fnat", "ns", "secs", "base", "off", "is_input", "name", "readonly", "telescopes", "diff_of", "frame"))

    __hash__ = None
    __array_priority__ = 1000

    def __init__(self, arr):
        self.arr = arr

    def __pyvc_array__(self):
        return self.arr

    def to_series(self):
        return IntSeries(self.arr)

    def to_numpy(self):
        return self.arr.copy()

    def _cmp(self, o, op):
        if not M.is_scalar(o):
            raise Unsupported("Index comparison with %r" % (type(o),))
        return M.ew_binop(op, self.arr, o)

    def __lt__(self, o):
        return self._cmp(o, "lt")

    def __le__(self, o):
        return self._cmp(o, "le")

    def __gt__(self, o):
        return self._cmp(o, "gt")

    def __ge__(self, o):
        return self._cmp(o, "ge")


class IntSeries:
    """Series of integers: comparisons give boolean Series"""

    def __getattr__(self, attr):
        from .ctx import unknown_attr

        return unknown_attr("pandas.Series", attr, ("calls", "fn", "fv", "fsec", "fns", "fnat", "ns", "secs", "base", "off", "is_input", "name", "readonly", "telescopes", "diff_of", "frame"))

    __hash__ = None
    __array_priority__ = 1000

    def __init__(self, arr, frame=False):
        self.arr = arr

    def __pyvc_array__(self):
        return self.arr

    def _cmp(self, o, op):
        if not M.is_scalar(o):
            raise Unsupported("Series comparison with %r" % (type(o),))
        return BoolSeries(M.ew_binop(op, self.arr, o))

    def __lt__(self, o):
        return self._cmp(o, "lt")

    def __le__(self, o):
        return self._cmp(o, "le")

    def __gt__(self, o):
        return self._cmp(o, "gt")

    def __ge__(self, o):
        return self._cmp(o, "ge")


class BoolSeries:
    """boolean Series.  `series & masked_array` (measured, numpy 1.26 / pandas 3.0): the result is
    a boolean Series that is True wherever the masked array is masked and `s & data` elsewhere."""

    def __getattr__(self, attr):
        from .ctx import unknown_attr

        return unknown_attr("pandas.Series", attr, ("calls", "fn", "fv", "fsec", "fns", "fnat", "ns", "secs", "base", "off", "is_input", "name", "readonly", "telescopes", "diff_of", "frame"))

    __hash__ = None
    __array_priority__ = 1000

    def __init__(self, arr):
        assert arr.kind == "b"
        self.arr = arr

    def __pyvc_array__(self):
        return self.arr

    def _bin(self, o, op):
        a = self.arr
        ga = a.getter()
        if isinstance(o, BoolSeries):
            o = o.arr
        if isinstance(o, MArr):
            cur().use("pandas Series[bool] & numpy MaskedArray")
            if not M._same_len(a.n, o.n):
                raise ValueError("operands could not be broadcast together")
            gd = o._data.getter()
            gm = o._mask.getter() if o._mask is not None else (lambda i: (False, False))
            f = alg.and_ if op == "and" else alg.or_
            kd = o._data.kind
            return BoolSeries(Arr(a.n, "b", lambda i: (False, alg.or_(gm(i)[1], f(ga(i)[1], M._truth_pair(gd(i), kd))))))
        if isinstance(o, Arr):
            if o.kind != "b":
                raise Unsupported("Series & non-bool array")
            return BoolSeries(M.ew_binop(op, a, o))
        return NotImplemented

    def __and__(self, o):
        return self._bin(o, "and")

    def __or__(self, o):
        return self._bin(o, "or")

    def __rand__(self, o):
        # ndarray & Series -> Series (pandas takes priority); MaskedArray & Series likewise
        return self._bin(o, "and")

    def __invert__(self):
        return BoolSeries(M.ew_unop("invert", self.arr))


def _index_ctor(data, dtype=None):
    if isinstance(data, IntSeries):
        return IntIndex(data.arr)
    if isinstance(data, IntIndex):
        return data
    raise Unsupported("pd.Index(%r)" % (type(data),))


PD.DatetimeIndex = DatetimeIndex
PD.Timestamp = _TimestampNS()
PD.Index = _index_ctor


class TimedeltaIndex:
    """pd.to_timedelta(timedelta64 array): .seconds is the seconds *within the day* (0..86399),
    .days the whole days, .total_seconds() the total"""

    def __getattr__(self, attr):
        from .ctx import unknown_attr

        return unknown_attr("pandas.TimedeltaIndex", attr, ("calls", "fn", "fv", "fsec", "fns", "fnat", "ns", "secs", "base", "off", "is_input", "name", "readonly", "telescopes", "diff_of", "frame"))

    __hash__ = None

    def __init__(self, arr):
        if arr.kind != "m" or arr.unit != "ns":
            raise Unsupported("to_timedelta of %r" % (arr.dtype,))
        self.arr = arr.copy()

    def _secs(self, i):
        return alg.idiv(self.arr.val(i), 10**9)

    @property
    def seconds(self):
        g = self.arr.getter()

        def f(i):
            s_ = alg.idiv(g(i)[1], 10**9)
            return (False, alg.sub(s_, alg.mul(alg.idiv(s_, 86400), 86400)))

        return IntIndex(Arr(self.arr.n, "i", f))

    @property
    def days(self):
        g = self.arr.getter()
        return IntIndex(Arr(self.arr.n, "i", lambda i: (False, alg.idiv(alg.idiv(g(i)[1], 10**9), 86400))))

    def total_seconds(self):
        g = self.arr.getter()
        return IntIndex(Arr(self.arr.n, "f", lambda i: (g(i)[0], alg.rdiv(alg.to_real(g(i)[1]) if alg.is_sym(g(i)[1]) else g(i)[1], 10**9))))

    def to_numpy(self):
        return self.arr.copy()


def _to_timedelta(x, unit=None):
    if isinstance(x, MArr):
        x = x._data
    if isinstance(x, Arr):
        return TimedeltaIndex(x)
    raise Unsupported("pd.to_timedelta(%r)" % (type(x),))


PD.to_timedelta = _to_timedelta


from .ctx import guard_methods as _gm  # noqa: E402

for _cls, _lab in ((Series, "pandas.Series"), (Rolling, "pandas.Rolling"), (Timestamp, "pandas.Timestamp"), (DatetimeIndex, "pandas.DatetimeIndex"), (IntIndex, "pandas.Index"), (IntSeries, "pandas.Series"), (BoolSeries, "pandas.Series"), (TimedeltaIndex, "pandas.TimedeltaIndex")):
    _gm(_cls, _lab)

from .npmodel import _fill_missing_operators as _fmo  # noqa: E402

for _cls in (Series, DatetimeIndex, IntIndex, IntSeries, BoolSeries, TimedeltaIndex):
    _fmo(_cls, "pandas." + _cls.__name__)
