"""Contract model of the pandas vocabulary used by the numeric core (DESIGN T2).

Series / rolling windows (attenuated_signal_test) and DatetimeIndex period attributes
(climatology).  Statistics over a window are *uninterpreted*: the model returns fresh function
symbols, records the arguments the code passed (ghost state) and states only the NaN rule of
`Series.rolling(f"{p}s", min_periods=m)`:
   window of row k = rows j with t[k]-p < t[j] <= t[k]      (closed='right', the default)
   .std()                     NaN iff fewer than max(m, 2) non-NaN values in the window (m default 1)
   .apply(np.ptp, raw=True)   NaN iff fewer than m non-NaN values in the window or the window holds a NaN
In the concrete reading the real pandas is called, so the conformance run compares the model's
control flow around these calls, and the stand-ins compare the NaN rule with pandas itself.
"""
import types
from fractions import Fraction

import z3

from . import alg
from . import npmodel as M
from .ctx import Unsupported, cur
from .npmodel import Arr, MArr
from .values import SBool, SNum, raw, token_value


def _concrete_list(a):
    from .npfuncs import _concrete_values

    return _concrete_values(a)


class Series:
    __hash__ = None
    __array_priority__ = 1000

    def __init__(self, data=None, index=None, dtype=None):
        if data is None:
            data = M.from_values([], "f" if dtype is None else M.dtype_of(dtype).kind)
        if isinstance(data, MArr):
            # pd.Series(masked array): masked entries become NaN
            d, mk = data._data.getter(), (data._mask.getter() if data._mask is not None else None)
            kind = data.kind
            if mk is not None:
                data = Arr(data.n, kind, lambda i: (alg.or_(d(i)[0], mk(i)[1]), d(i)[1]), data.unit)
            else:
                data = data._data.copy()
        elif isinstance(data, Arr):
            data = data.copy()
        else:
            raise Unsupported("pd.Series(%r)" % (type(data),))
        self.values_arr = data
        if index is not None:
            if isinstance(index, MArr):
                index = index._data
            if not isinstance(index, Arr):
                raise Unsupported("Series index %r" % (type(index),))
            if not M._same_len(index.n, data.n):
                raise ValueError("Length of values does not match length of index")
            index = index.copy()
        self.index_arr = index

    def __pyvc_array__(self):
        return self.values_arr

    @property
    def n(self):
        return self.values_arr.n

    def to_numpy(self):
        return self.values_arr.copy()

    @property
    def values(self):
        return self.values_arr

    @property
    def dtype(self):
        return self.values_arr.dtype

    def rolling(self, window, min_periods=None):
        return Rolling(self, window, min_periods)

    def _cmp(self, o, op):
        return Series(M.ew_binop(op, self.values_arr, o), self.index_arr)

    def __lt__(self, o):
        return self._cmp(o, "lt")

    def __le__(self, o):
        return self._cmp(o, "le")

    def __gt__(self, o):
        return self._cmp(o, "gt")

    def __ge__(self, o):
        return self._cmp(o, "ge")


class Rolling:
    def __init__(self, series, window, min_periods):
        c = cur()
        c.use("pandas.Series.rolling(time window).std/apply")
        if series.index_arr is None or series.index_arr.kind != "M":
            raise ValueError("window must be an integer 0 or greater")
        if not isinstance(window, str):
            raise Unsupported("integer rolling window")
        tv = token_value(window)
        if tv is None:
            if not window.endswith("s"):
                raise Unsupported("rolling window %r" % window)
            period = SNum(alg.conc(float(window[:-1])), False, "pyf")
        else:
            pre, period, suf = tv
            if pre != "" or suf != "s":
                raise Unsupported("rolling window format %r" % window)
        self.series = series
        self.period = period
        if min_periods is not None and not isinstance(min_periods, (int, SNum)):
            raise Unsupported("min_periods %r" % (min_periods,))
        self.min_periods = min_periods
        # pandas: the window must be positive, min_periods >= 0, index monotonic
        pv = period.val
        c.ensure(alg.and_(alg.not_(period.nan), alg.gt(pv, 0)), ValueError, "window must be positive")
        if min_periods is not None:
            c.ensure(alg.ge(raw(min_periods), 0), ValueError, "min_periods must be >= 0")
        n = series.n
        t = series.index_arr.getter()
        if alg.as_concrete(n) is None:
            k = c.fresh("mono", z3.IntSort())
            bad = alg.and_(alg.le(0, k), alg.lt(alg.add(k, 1), n), alg.gt(t(k)[1], t(alg.add(k, 1))[1]))
            if alg.simp(bad) is not False:
                c.index_seeds.append(k)
                if c.fork(bad):
                    raise ValueError("index values must be monotonic")
                c.add_fact("index-monotonic", lambda i: alg.implies(alg.and_(alg.le(0, i), alg.lt(alg.add(i, 1), n)), alg.le(t(i)[1], t(alg.add(i, 1))[1])))
        else:
            tc = _concrete_list(series.index_arr)
            if tc is not None and any(a[1] > b[1] for a, b in zip(tc, tc[1:])):
                raise ValueError("index values must be monotonic")
        self.ghost = None

    def _setup(self, stat):
        c = cur()
        s = self.series
        n = s.n
        vals = s.values_arr.getter()
        conc = _concrete_list(s.values_arr)
        tcon = _concrete_list(s.index_arr)
        pc = alg.as_concrete(self.period.val)
        mp = self.min_periods
        mpc = None if mp is None else alg.as_concrete(raw(mp))
        if conc is not None and tcon is not None and pc is not None and (mp is None or mpc is not None):
            return self._concrete(stat, conc, tcon, pc, mpc)
        wcount = c.fresh_fun("wcount", z3.IntSort(), z3.IntSort())
        wnan = c.fresh_fun("wnan", z3.IntSort(), z3.BoolSort())
        wval = c.fresh_fun("w" + stat, z3.IntSort(), z3.RealSort())
        c.add_fact("wcount-nonneg", lambda k: alg.implies(M.in_range(k, n), alg.and_(alg.ge(wcount(alg.lift(k)), 0), alg.ge(wval(alg.lift(k)), 0))))
        # the row itself lies in its own window (period > 0)
        c.add_fact("own-row-in-window", lambda k: alg.implies(M.in_range(k, n), alg.ite(vals(k)[0], wnan(alg.lift(k)), alg.ge(wcount(alg.lift(k)), 1))))
        # a NaN in the window is a NaN at some row of the window (rows j <= k with t[j] > t[k] - p)
        wnanw = c.fresh_fun("wnanw", z3.IntSort(), z3.IntSort())
        tt = s.index_arr.getter()
        pns = alg.mul(self.period.val, 10**9)

        def nan_witness(k):
            j = wnanw(alg.lift(k))
            return alg.implies(alg.and_(M.in_range(k, n), wnan(alg.lift(k))), alg.and_(alg.le(0, j), alg.le(j, k), alg.gt(tt(j)[1], alg.sub(tt(k)[1], pns)), vals(j)[0]))

        c.add_fact("wnan-witness", nan_witness)
        minp = 1 if mp is None else raw(mp)
        if stat == "std":
            isnan = lambda k: alg.lt(wcount(alg.lift(k)), alg.max_(minp, 2))  # noqa: E731
        else:
            isnan = lambda k: alg.or_(alg.lt(wcount(alg.lift(k)), minp), wnan(alg.lift(k)))  # noqa: E731
        if not hasattr(c, "ghost"):
            c.ghost = {}
        c.ghost.setdefault("rolling", []).append(
            {"stat": stat, "values": s.values_arr.copy(), "index": s.index_arr.copy(), "period": self.period, "min_periods": mp, "wcount": wcount, "wnan": wnan, "wval": wval, "isnan": isnan}
        )
        out = Arr(n, "f", lambda k: (isnan(k), wval(alg.lift(k))))
        return Series(out, s.index_arr)

    def _concrete(self, stat, conc, tcon, pc, mpc):
        """concrete reading: the real pandas"""
        import numpy as np
        import pandas as pd

        vals = np.array([np.nan if p[0] else float(p[1]) for p in conc], dtype=np.float64)
        idx = np.array([int(p[1]) for p in tcon], dtype="datetime64[ns]")
        ser = pd.Series(vals, index=idx)
        w = ser.rolling("%ss" % (float(pc),), min_periods=mpc)
        r = w.std() if stat == "std" else w.apply(np.ptp, raw=True)
        out = M.from_values([None if v != v else Fraction(float(v)) for v in r.to_numpy().tolist()], "f")
        return Series(out, self.series.index_arr)

    def std(self):
        return self._setup("std")

    def apply(self, func, raw=False, engine=None):  # noqa: A002
        from . import npfuncs

        if engine is not None:
            # numba is not installed: pandas raises ImportError, the code falls back
            raise ImportError("Missing optional dependency 'numba'")
        if func is not npfuncs.np_ptp or raw is not True:
            raise Unsupported("rolling.apply(%r, raw=%r)" % (func, raw))
        return self._setup("ptp")


def _series_ctor(data=None, index=None, dtype=None):
    return Series(data, index, dtype)


PD = types.SimpleNamespace()
PD.__pyvc_model__ = True
PD.Series = _series_ctor
