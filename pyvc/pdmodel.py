"""Contract model of the pandas vocabulary used by the numeric core (filled in per need)."""
import types

PD = types.SimpleNamespace()
PD.__pyvc_model__ = True
