"""Concrete readings: replay of counter-models on the real code, the conformance run (model
vs. CPython + numpy on the same inputs) and the oracle of the bounded stand-ins.

All three use the contract text unchanged: the case's `declare` is instantiated with concrete
values (ConcMk / RealMk) and its clauses are evaluated by the concrete reading of the algebra.
"""
import importlib
import warnings
from fractions import Fraction

from . import alg
from . import ctx as C
from .contract import ConcMk, Pair, RealMk, Res, res_from_numpy
from .npmodel import Arr, MArr, MaskedConst


def real_module(modname):
    from . import front

    front.ensure_repo_importable()
    return importlib.import_module(modname)


def _input_snapshot(env):
    """copies of the caller's arrays / sequences among the declared inputs (frame condition of the real run)"""
    import copy

    import numpy as np

    snap = {}
    for name, v in vars(env).items():
        if isinstance(v, np.ndarray):
            snap[name] = (v, np.ma.copy(v) if isinstance(v, np.ma.MaskedArray) else v.copy())
        elif isinstance(v, (list, dict)):
            try:
                snap[name] = (v, copy.deepcopy(v))
            except Exception:  # noqa: BLE001
                pass
        elif type(v).__module__.startswith("pandas") and hasattr(v, "copy"):
            snap[name] = (v, v.copy())
    return snap


def _same(a, b):
    import numpy as np

    try:
        if isinstance(a, np.ndarray):
            if a.shape != b.shape or a.dtype != b.dtype:
                return False
            if isinstance(a, np.ma.MaskedArray):
                if not np.array_equal(np.ma.getmaskarray(a), np.ma.getmaskarray(b)):
                    return False
                a, b = np.ma.getdata(a), np.ma.getdata(b)
            if a.dtype.kind in "fc":
                return bool(np.array_equal(a, b, equal_nan=True))
            if a.dtype.kind == "O":
                return all((x is y) or (x == y) or (x != x and y != y) for x, y in zip(a.ravel().tolist(), b.ravel().tolist()))
            return bool(np.array_equal(a, b))
        if type(a).__module__.startswith("pandas"):
            return bool(a.equals(b))
        if isinstance(a, list):
            return len(a) == len(b) and all(_same(x, y) for x, y in zip(a, b))
        if isinstance(a, dict):
            return list(a.keys()) == list(b.keys()) and all(_same(a[k], b[k]) for k in a)
        if isinstance(a, float) and a != a:
            return b != b
        r = a == b
        return bool(r) if not hasattr(r, "all") else bool(r.all())
    except Exception:  # noqa: BLE001
        return True  # not comparable: no verdict


def run_real(case, values):
    mk = RealMk(values)
    env = case.declare(mk)
    mod = real_module(case.module)
    snap = _input_snapshot(env)
    try:
        with warnings.catch_warnings():
            warnings.simplefilter("ignore")
            r = case.call(mod, env)
    except Exception as e:  # noqa: BLE001
        acc = C.internal_error(e)
        if acc is not None:
            # the harness itself failed (not the code under test): no verdict from this input
            return ("harness-error", acc)
        return ("raise", e)
    changed = sorted(n for n, (v, c) in snap.items() if not _same(v, c))
    if changed:
        return ("raise", C.FrameViolation("the call modified the caller's input(s) %s" % ", ".join(changed)))
    return ("return", r)


def run_model(T, case, values):
    if getattr(case, "no_concrete_model", False):
        return ("outside", None), None
    mk = ConcMk(values)
    ctx = C.Ctx()
    ctx.concrete_mode = True
    with C.activate(ctx):
        env = case.declare(mk)
        if not mk.ok:
            return ("outside", None), env
        undo = [T.stub(m, n, s) for (m, n, s) in case.stubs(T)]
        try:
            with warnings.catch_warnings():
                warnings.simplefilter("ignore")
                r = case.call(T.module(case.module), env)
            out = ("return", r)
        except C.Unsupported:
            raise
        except C.ModelLimit as e:
            out = ("limit", e)
        except Exception as e:  # noqa: BLE001
            acc = C.internal_error(e)
            if acc is not None:
                raise C.Unsupported("accident inside the model: " + acc) from e
            out = ("raise", e)
        finally:
            for u in undo:
                u()
        if ctx.nforks:
            out = ("symbolic", "the concrete run forked %d times (result depends on unconstrained memory)" % ctx.nforks)
    return out, env


def _conc(x):
    c = alg.as_concrete(x) if alg.is_sym(x) else x
    return c


def model_result_lists(r):
    """(data list, mask list or None) of a concrete model result"""
    if isinstance(r, MArr):
        d, m = r._data, r._mask
    elif isinstance(r, Arr):
        d, m = r, None
    else:
        return None
    n = _conc(d.n)
    data = []
    for i in range(n):
        nan, v = d.elem(i)
        nan, v = _conc(nan), _conc(v)
        if nan is None or v is None:
            data.append("symbolic")
        else:
            data.append(None if nan else (v if not isinstance(v, bool) else v))
    mask = None if m is None else [_conc(m.val(i)) for i in range(n)]
    return data, mask


def numpy_result_lists(r):
    import numpy as np

    if isinstance(r, np.ma.MaskedArray):
        data = np.asarray(r.data)
        m = np.ma.getmask(r)
        mask = None if m is np.ma.nomask else [bool(x) for x in np.asarray(m).tolist()]
    elif isinstance(r, np.ndarray):
        data, mask = r, None
    else:
        return None
    if data.ndim != 1:
        return None
    out = []
    for v in data.tolist():
        if isinstance(v, float) and v != v:
            out.append(None)
        elif isinstance(v, bool):
            out.append(v)
        elif isinstance(v, float):
            out.append(Fraction(v) if v != int(v) else int(v))
        else:
            out.append(v)
    return out, mask


def conform(T, case, values, compare_hidden=None):
    """-> None when model and real agree, else a description"""
    if compare_hidden is None:
        compare_hidden = case.compare_hidden
    (mk_kind, mr), env = run_model(T, case, values)
    if mk_kind == "outside":
        return "outside"
    rk, rr = run_real(case, values)
    if rk == "harness-error":
        raise C.Unsupported("harness accident in the real run: %s" % rr)
    if mk_kind == "limit":
        # outside the number model (inf / NaN -> int ...): nothing to compare - except that a real run that
        # RAISES there is worth a look (the triage evaluates the contract on it: an exception the contract
        # does not allow is a violation with this input)
        if rk == "raise":
            return "model leaves the number model (%s), real raise %r" % (mr, rr)
        return None
    if mk_kind == "symbolic":
        # the concrete reading of the model could not reduce everything to numbers (it had to ask the solver):
        # a limit of the concrete reading on this input, not a disagreement - the input is skipped
        raise C.Unsupported("concrete reading left symbolic: %s" % (mr,))
    if mk_kind == "raise" and rk != "raise" and isinstance(mr, (TypeError, AttributeError, NotImplementedError, NameError)):
        # a type-confusion error in the model run that the real run does not have: an operation on a model
        # object that Python could not resolve - a gap of the model, not a disagreement about the code
        raise C.Unsupported("model gap in the concrete reading: %r" % (mr,))
    if mk_kind == "raise" or rk == "raise":
        if mk_kind == "raise" and rk == "raise" and type(mr).__name__ == type(rr).__name__:
            return None
        return "model %s %r vs real %s %r" % (mk_kind, mr if mk_kind == "raise" else "", rk, rr if rk == "raise" else "")
    if isinstance(mr, Pair) and isinstance(rr, Pair):
        for x, y in ((mr.a, rr.a), (mr.b, rr.b)):
            d = _compare_arrays(model_result_lists(x), numpy_result_lists(y), compare_hidden)
            if d is not None:
                return d
        return None
    ml = model_result_lists(mr)
    rl = numpy_result_lists(rr)
    if ml is None or rl is None:
        if isinstance(mr, MaskedConst) and rr is __import__("numpy").ma.masked:
            return None
        if ml is None and rl is None:
            # object results: both runs must satisfy the contract's (non-indexed) postconditions
            bad = evaluate_contract(case, values, ("return", rr))
            badm = evaluate_contract(case, values, ("return", Res(mr)))
            if not bad and not badm:
                return None
            return "object result: real violates %s, model violates %s" % (bad, badm)
        return "non-array results: model %r real %r" % (type(mr), type(rr))
    return _compare_arrays(ml, rl, compare_hidden)


def _compare_arrays(ml, rl, compare_hidden):
    if ml is None or rl is None:
        return "non-array component"
    md, mm = ml
    rd, rm = rl
    if len(md) != len(rd):
        return "length: model %d real %d" % (len(md), len(rd))
    # nomask and an all-False mask array are observationally equal for every operation the
    # model covers (numpy shrinks all-False masks in mask_or); compare them as equal
    if mm is None:
        mm = [False] * len(md)
    if rm is None:
        rm = [False] * len(rd)
    for i in range(len(md)):
        hidden = rm[i]
        if mm[i] != rm[i]:
            return "mask[%d]: model %s real %s" % (i, mm[i], rm[i])
        if hidden and not compare_hidden:
            continue
        a, b = md[i], rd[i]
        if a == "symbolic":
            raise C.Unsupported("concrete reading left data[%d] symbolic" % i)
        if (a is None) != (b is None) or (a is not None and Fraction(a) != Fraction(b)):
            return "data[%d]: model %s real %s" % (i, a, b)
    return None


def evaluate_contract(case, values, outcome):
    """violated clause names of the contract on a concrete outcome of the *real* function
    (empty list = contract satisfied; None = inputs outside `requires`)"""
    from . import npmodel

    mk = ConcMk(values)
    ctx = C.Ctx()
    npmodel.STRICT_BOUNDS = False
    try:
        return _evaluate_contract(case, mk, ctx, outcome)
    finally:
        npmodel.STRICT_BOUNDS = True


def _evaluate_contract(case, mk, ctx, outcome):
    with C.activate(ctx):
        env = case.declare(mk)
        if not mk.ok:
            return None
        kind, val = outcome
        bad = []
        rcl = case.raises(env)
        if kind == "raise":
            if isinstance(val, C.FrameViolation):
                return ["frame"]
            ok = False
            for E, nm, cond in rcl:
                if isinstance(val, E) and _conc(cond) is True:
                    ok = True
            if not ok:
                matched = [nm for E, nm, cond in rcl if isinstance(val, E)]
                bad.append(("raises.%s.only-when" % matched[0]) if matched else "no-raise")
            return bad
        for E, nm, cond in rcl:
            if _conc(cond) is True:
                bad.append("raises.%s.whenever" % nm)
        if isinstance(val, Res):
            res = val
        elif isinstance(val, Pair):
            res = Res(Pair(res_from_numpy(val.a).value if not isinstance(val.a, (Arr, MArr)) else val.a, res_from_numpy(val.b).value if not isinstance(val.b, (Arr, MArr)) else val.b))
        else:
            try:
                import numpy as _np

                res = res_from_numpy(val) if isinstance(val, _np.ndarray) else Res(val)
            except Exception:  # noqa: BLE001
                res = Res(val)
        for nm, f in case.post_global(env, res).items():
            if _conc(f) is not True:
                bad.append("post." + nm)
        if res.is_array:
            n = _conc(res.n)
            for k in range(n):
                for nm, f in case.post(env, res, k).items():
                    if isinstance(f, tuple):
                        f = f[0]
                    if _conc(f) is not True and ("post." + nm) not in bad:
                        bad.append("post." + nm)
        return bad


def replay(case, values):
    """run the real function on the counter-model and evaluate the contract: -> (violated clauses
    or None when outside requires, short description of what the real code did)"""
    out = run_real(case, values)
    if out[0] == "harness-error":
        return None, "harness accident (no verdict): %s" % out[1]
    bad = evaluate_contract(case, values, out)
    if out[0] == "raise":
        what = "raised %s: %s" % (type(out[1]).__name__, str(out[1])[:120])
    else:
        rl = numpy_result_lists(out[1])
        what = "returned %s" % (rl,) if rl is not None else "returned %r" % (out[1],)
    return bad, what
