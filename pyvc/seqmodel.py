"""Symbolic-length sequences of Python objects (lists of vectors, of members, of results).

SymSeq(K, element): K is a z3 Int (>= 0), element(q) builds the q-th element for a symbolic
position q.  Comprehensions over a SymSeq give mapped SymSeqs (through the two helpers the front
end rewrites comprehensions to); `for` statements cut the loop (pyvc/loops.py); all()/any() over
a generator of a SymSeq become quantified facts with witnesses."""
import z3

from . import alg
from .ctx import Unsupported, cur
from .values import SBool, SNum, truth


def listcomp(f, it, cond=None):
    if isinstance(it, SymSeq):
        if cond is not None:
            raise Unsupported("filtered comprehension over a symbolic sequence")
        return it.map(f)
    if cond is None:
        return [f(x) for x in it]
    return [f(x) for x in it if cond(x)]


def genexp(f, it, cond=None):
    if isinstance(it, SymSeq):
        if cond is not None:
            raise Unsupported("filtered generator over a symbolic sequence")
        return it.map(f)
    if cond is None:
        return (f(x) for x in it)
    return (f(x) for x in it if cond(x))


def contains(a, b):
    """`a in b`: real operands use the real operator; symbolic strings / containers answer symbolically"""
    f = getattr(b, "__pyvc_contains__", None)
    if f is not None:
        return f(a)
    g = getattr(a, "__pyvc_in__", None)
    if g is not None:
        return g(b)
    return a in b


class SymSeq:
    __hash__ = None

    def __getattr__(self, attr):
        from .ctx import unknown_attr

        return unknown_attr("builtins.list", attr, ("K", "element", "cut", "name", "val", "n", "is_input", "unit", "ns"))

    def __init__(self, K, element, cut=None, name="seq"):
        self.K, self.element, self.cut, self.name = K, element, cut, name
        self._memo = {}

    def at(self, q):
        k = q.get_id() if alg.is_sym(q) else q
        if k not in self._memo:
            self._memo[k] = (q, self.element(q))
        return self._memo[k][1]

    def map(self, f):
        src = self
        # a mapped sequence iterated by a `for` statement is cut with the same invariant
        return SymSeq(self.K, lambda q: f(src.at(q)), self.cut, self.name + ".map")

    def __bool__(self):
        return bool(SBool(alg.gt(self.K, 0)))

    def __pyvc_len__(self):
        return SNum(self.K, False, "pyi")

    def __getitem__(self, idx):
        if isinstance(idx, slice):
            raise Unsupported("slice of a symbolic sequence")
        i = idx.val if isinstance(idx, SNum) else idx
        if alg.is_sym(i) or i >= 0:
            cur().ensure(alg.and_(alg.le(0, i), alg.lt(i, self.K)), IndexError, "list index out of range")
            return self.at(alg.lift(i) if not alg.is_sym(i) else i)
        cur().ensure(alg.le(-i, self.K), IndexError, "list index out of range")
        return self.at(alg.add(self.K, i))

    def __iter__(self):
        from .loops import cut_iterator

        import sys as _sys

        fr = _sys._getframe(1)
        try:
            import dis as _dis

            op = _dis.opname[fr.f_code.co_code[fr.f_lasti]]
        except Exception:  # noqa: BLE001
            op = "?"
        if fr.f_code.co_flags & 0x20:  # CO_GENERATOR
            # the `for` statement sits in a generator function: its iterations are interleaved with the consumer's
            # loop body, which is where the state lives - a loop cut describes a loop with its body in one frame
            raise Unsupported("symbolic sequence %s is iterated inside a generator function (%s)" % (self.name, fr.f_code.co_name))
        if op != "GET_ITER":
            # consumed by something other than a `for` statement of the code (itertools.product, zip, sorted,
            # a C-level consumer ...): a loop cut describes one pass of a for-loop body, nothing else
            raise Unsupported("symbolic sequence %s is consumed by something other than a for statement (%s)" % (self.name, op))
        if self.cut is None:
            import sys

            from .loops import try_append_loop

            if try_append_loop(self, sys._getframe(1)):
                return iter(())
            raise Unsupported("for-loop over a symbolic sequence without a loop cut (%s)" % self.name)
        return cut_iterator(self)

    def _generic_truth(self):
        """truth value of the element at a generic position, evaluated now (inside the path) and
        instantiated later by substitution"""
        c = cur()
        qg = c.fresh("qg", z3.IntSort())
        f0 = c.branchings
        t = truth(self.at(qg))
        if c.branchings != f0:
            c.unsupported_here("data-dependent branch inside a generator over a symbolic sequence")
        if not alg.is_sym(t):
            return lambda q: t
        return lambda q: z3.substitute(t, (qg, alg.lift(q)))

    # all(genexp) / any(genexp) over the mapped truth values
    def __pyvc_all__(self):
        c = cur()
        K = self.K
        b = c.fresh("allseq", z3.BoolSort())
        w = c.fresh("allseqw", z3.IntSort())
        tr = self._generic_truth()
        c.assume(alg.implies(alg.not_(b), alg.and_(alg.le(0, w), alg.lt(w, K), alg.not_(tr(w)))))
        c.add_fact("allseq-true", lambda q: alg.implies(alg.and_(b, alg.le(0, q), alg.lt(q, K)), tr(q)))
        c.index_seeds.append(w)
        return SBool(b)

    def __pyvc_any__(self):
        c = cur()
        K = self.K
        b = c.fresh("anyseq", z3.BoolSort())
        w = c.fresh("anyseqw", z3.IntSort())
        tr = self._generic_truth()
        c.assume(alg.implies(b, alg.and_(alg.le(0, w), alg.lt(w, K), tr(w))))
        c.add_fact("anyseq-false", lambda q: alg.implies(alg.and_(alg.not_(b), alg.le(0, q), alg.lt(q, K)), alg.not_(tr(q))))
        c.index_seeds.append(w)
        return SBool(b)
