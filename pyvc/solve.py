"""Discharging obligations: z3 (Python API) first, then the SMT-LIB text to cvc5 and to the
system z3 binary when the primary solver says unknown.  In the thorough tier every obligation
is re-checked by cvc5 and a disagreement is a checker failure."""
import os
import shutil
import subprocess
import tempfile
import time

import z3

from . import alg

QUICK_TIMEOUT_MS = int(os.environ.get("PYVC_TIMEOUT_MS", "20000"))


class Verdict:
    def __init__(self, status, solver, seconds, model=None, reason=""):
        self.status = status  # 'unsat' | 'sat' | 'unknown'
        self.solver = solver
        self.seconds = seconds
        self.model = model
        self.reason = reason


_APPS_MEMO = {}


def _apps(term, funcs, out, seen):
    """index arguments of applications of the given uninterpreted functions (memoised per formula)"""
    key = (term.get_id(), tuple(sorted(funcs)))
    hit = _APPS_MEMO.get(key)
    if hit is None:
        found = {}
        _apps_walk(term, funcs, found, set())
        _APPS_MEMO[key] = (term, found)
        hit = _APPS_MEMO[key]
    out.update(hit[1])


def _apps_walk(term, funcs, out, seen):
    stack = [term]
    fids = funcs
    while stack:
        t = stack.pop()
        i = t.get_id()
        if i in seen:
            continue
        seen.add(i)
        if z3.is_app(t):
            d = t.decl()
            if d.arity() >= 1 and d.kind() == z3.Z3_OP_UNINTERPRETED and d.name() in fids:
                for a in t.children():
                    if z3.is_int(a):
                        out[a.get_id()] = a
            stack.extend(t.children())
        # quantifier bodies are not searched: their index terms contain bound variables


def instantiate(facts, formulas, funcs, seeds=(), rounds=2, limit=40):
    """ground instances of universal facts at the index terms occurring in `formulas`
    (hand-made E-matching: sound, every instance follows from the fact)"""
    fnames = {f.name() for f in funcs}
    idx = {}
    for s in seeds:
        s = alg.lift(s)
        idx[s.get_id()] = s
    seen = set()
    for f in formulas:
        if alg.is_sym(f):
            _apps(f, fnames, idx, seen)
    out = []
    done = set()
    for _ in range(rounds):
        terms = list(idx.values())[:limit]
        new = []
        for fact in facts:
            if fact.arity != 1 or not getattr(fact, "auto", True):
                continue
            for t in terms:
                key = (id(fact), t.get_id())
                if key in done:
                    continue
                done.add(key)
                inst = fact.body(t)
                if inst is True:
                    continue
                inst = alg.lift(inst)
                new.append(inst)
        out.extend(new)
        before = len(idx)
        for f in new:
            _apps(f, fnames, idx, seen)
        if len(idx) == before:
            break
    return out


def check_sat(formulas, timeout_ms=None, want_model=True, fallback=True, cvc5_first=False):
    """satisfiability of a conjunction"""
    timeout_ms = timeout_ms or QUICK_TIMEOUT_MS
    if cvc5_first:
        s0 = z3.Solver()
        for f in formulas:
            if f is True:
                continue
            if f is False:
                return Verdict("unsat", "trivial", 0.0), None
            s0.add(f)
        st, secs = run_cvc5(s0.to_smt2(), timeout_ms)
        if st == "unsat":
            return Verdict("unsat", "cvc5", secs), s0
    s = z3.Solver()
    s.set("timeout", timeout_ms)
    for f in formulas:
        if f is True:
            continue
        if f is False:
            return Verdict("unsat", "trivial", 0.0), None
        s.add(f)
    t0 = time.time()
    r = s.check()
    dt = time.time() - t0
    if r == z3.unsat:
        return Verdict("unsat", "z3-" + z3.get_version_string(), dt), s
    if r == z3.sat:
        return Verdict("sat", "z3-" + z3.get_version_string(), dt, s.model() if want_model else None), s
    v = Verdict("unknown", "z3-" + z3.get_version_string(), dt, reason=s.reason_unknown())
    if not fallback:
        return v, s
    # hand the text to the other solvers
    smt2 = s.to_smt2()
    for name, fn in (("cvc5", run_cvc5), ("z3-4.8.12", run_sysz3)):
        st, secs = fn(smt2, timeout_ms)
        if st in ("unsat", "sat"):
            return Verdict(st, name, dt + secs, None, "primary solver unknown: " + v.reason), s
    return v, s


def _run(cmd, smt2, timeout_ms):
    t0 = time.time()
    with tempfile.NamedTemporaryFile("w", suffix=".smt2", delete=False) as f:
        f.write(smt2)
        path = f.name
    try:
        p = subprocess.run(cmd + [path], capture_output=True, text=True, timeout=timeout_ms / 1000.0 + 5)
        out = p.stdout.strip().splitlines()
        st = out[0].strip() if out else "unknown"
    except subprocess.TimeoutExpired:
        st = "unknown"
    finally:
        os.unlink(path)
    return (st if st in ("sat", "unsat") else "unknown"), time.time() - t0


def run_cvc5(smt2, timeout_ms):
    exe = shutil.which("cvc5") or "/usr/bin/cvc5"
    if not os.path.exists(exe):
        return "unknown", 0.0
    text = "(set-logic ALL)\n" + smt2
    return _run([exe, "--tlimit=%d" % timeout_ms, "--strings-exp"], text, timeout_ms)


def run_sysz3(smt2, timeout_ms):
    exe = "/usr/bin/z3"
    if not os.path.exists(exe):
        return "unknown", 0.0
    return _run([exe, "-T:%d" % max(1, timeout_ms // 1000)], smt2, timeout_ms)


_UDIV = z3.Function("nl!div", z3.RealSort(), z3.RealSort(), z3.RealSort())
_UMUL = z3.Function("nl!mul", z3.RealSort(), z3.RealSort(), z3.RealSort())
_UMULI = z3.Function("nl!muli", z3.IntSort(), z3.IntSort(), z3.IntSort())


def _is_num(t):
    return z3.is_int_value(t) or z3.is_rational_value(t)


def abstract_nl(term, memo):
    """replace non-linear division / multiplication by uninterpreted functions.  The abstraction
    only forgets facts about * and /, so `unsat` of the abstracted query implies `unsat` of the
    original (a `sat` answer of the abstracted query means nothing and is never used)."""
    i = term.get_id()
    if i in memo:
        return memo[i]
    if not z3.is_app(term) or term.num_args() == 0:
        memo[i] = term
        return term
    if z3.is_quantifier(term):
        memo[i] = term
        return term
    kids = [abstract_nl(c, memo) for c in term.children()]
    k = term.decl().kind()
    r = None
    if k == z3.Z3_OP_DIV and not _is_num(kids[1]):
        r = _UDIV(kids[0], kids[1])
    elif k == z3.Z3_OP_MUL:
        non = [c for c in kids if not _is_num(c)]
        if len(non) >= 2:
            num = [c for c in kids if _is_num(c)]
            acc = non[0]
            for c in non[1:]:
                if z3.is_int(acc) and z3.is_int(c):
                    acc = _UMULI(acc, c)
                else:
                    acc = _UMUL(z3.ToReal(acc) if z3.is_int(acc) else acc, z3.ToReal(c) if z3.is_int(c) else c)
            for c in num:
                acc = c * acc
            r = acc
    if r is None:
        r = term.decl()(*kids) if any(a.get_id() != b.get_id() for a, b in zip(kids, term.children())) else term
    memo[i] = r
    return r


def has_nl(term, memo):
    i = term.get_id()
    if i in memo:
        return memo[i]
    r = False
    if z3.is_app(term):
        k = term.decl().kind()
        ch = term.children()
        if k == z3.Z3_OP_DIV and not _is_num(ch[1]):
            r = True
        elif k == z3.Z3_OP_MUL and len([c for c in ch if not _is_num(c)]) >= 2:
            r = True
        else:
            r = any(has_nl(c, memo) for c in ch)
    memo[i] = r
    return r


RECHECK = {"unsat": 0, "unknown": 0, "sat": 0, "seconds": 0.0}  # cvc5 re-check of discharged queries (thorough tier)
_NL_MEMO = {}
_NL_KEEP = []


def reset_caches():
    _NL_MEMO.clear()
    del _NL_KEEP[:]
    _APPS_MEMO.clear()


def prove(assumptions, goal, timeout_ms=None, cvc5_first=False):
    """validity of  /\\ assumptions -> goal"""
    if goal is True:
        return Verdict("unsat", "trivial", 0.0), None
    fs = [alg.lift(a) for a in assumptions if a is not True]
    fs.append(z3.Not(alg.lift(goal)))
    if cvc5_first:
        return check_sat(fs, timeout_ms, cvc5_first=True)
    _NL_KEEP.extend(fs)  # keep the terms alive: the memo is keyed by ast id
    abstracted = [abstract_nl(f, _NL_MEMO) for f in fs]
    if any(a.get_id() != f.get_id() for a, f in zip(abstracted, fs)):
        v, s = check_sat(abstracted, timeout_ms, want_model=False, fallback=False)
        if v.status == "unsat":
            v.solver += "(nl-abstracted)"
            _recheck(s, v)
            return v, s
    v, s = check_sat(fs, timeout_ms)
    if v.status == "unsat":
        _recheck(s, v)
    return v, s


def _recheck(s, v):
    """thorough tier (T4): hand every query z3 discharged to cvc5 as well; `sat` from cvc5 is a
    disagreement between the solvers (checker failure), `unknown` is recorded"""
    if not os.environ.get("PYVC_RECHECK") or s is None or "cvc5" in v.solver:
        return
    st, secs = run_cvc5(s.to_smt2(), int(os.environ.get("PYVC_RECHECK_MS", "15000")))
    RECHECK[st if st in RECHECK else "unknown"] += 1
    RECHECK["seconds"] += secs
    if st == "sat":
        v.status = "unknown"
        v.reason = "solver disagreement: z3 unsat, cvc5 sat"
