"""Specification-side objects with two readings (symbolic Skolem objects / concrete values)."""
import z3

from . import alg
from .npfuncs import spec_const


class WindowRange:
    """largest and smallest *present* value of x over positions lo..hi (inclusive).
    symbolic: fresh mn, mx with witnesses; `axioms` are definitional (such objects exist for every
    finite window), `univ(j)` is the bound for an arbitrary position j.
    concrete: computed."""

    def __init__(self, x, lo, hi, tag="w"):
        self.x, self.lo, self.hi = x, lo, hi
        clo, chi = alg.as_concrete(lo), alg.as_concrete(hi)
        cn = alg.as_concrete(x.n)
        self.concrete = clo is not None and chi is not None and cn is not None
        if self.concrete:
            vals = []
            for j in range(max(clo, 0), min(chi, cn - 1) + 1):
                nan, v = x.elem(j)
                nan = alg.as_concrete(nan) if alg.is_sym(nan) else nan
                v = alg.as_concrete(v) if alg.is_sym(v) else v
                if not nan:
                    vals.append(v)
            self.nonempty = bool(vals)
            self.mn = min(vals) if vals else 0
            self.mx = max(vals) if vals else 0
            self.axioms = []
            self.witnesses = []
            return
        self.mn = spec_const(tag + "min", z3.RealSort())
        self.mx = spec_const(tag + "max", z3.RealSort())
        self.jmn = spec_const(tag + "jmin", z3.IntSort())
        self.jmx = spec_const(tag + "jmax", z3.IntSort())
        self.nonempty = spec_const(tag + "nonempty", z3.BoolSort())
        inw = lambda j: alg.and_(alg.le(lo, j), alg.le(j, hi), alg.le(0, j), alg.lt(j, x.n))  # noqa: E731
        self._inw = inw
        self.axioms = [
            alg.implies(self.nonempty, alg.and_(inw(self.jmn), alg.not_(x.nan(self.jmn)), alg.eq(x.val(self.jmn), self.mn))),
            alg.implies(self.nonempty, alg.and_(inw(self.jmx), alg.not_(x.nan(self.jmx)), alg.eq(x.val(self.jmx), self.mx))),
        ]
        self.witnesses = [self.jmn, self.jmx]

    def univ(self, j):
        if self.concrete:
            return True
        x = self.x
        return alg.implies(alg.and_(self._inw(j), alg.not_(x.nan(j))), alg.and_(self.nonempty, alg.le(self.mn, x.val(j)), alg.le(x.val(j), self.mx)))

    @property
    def range(self):
        return alg.sub(self.mx, self.mn)
