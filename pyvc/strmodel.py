"""Symbolic strings (z3 String theory) handed to the real code.

SStr is a subclass of `str` (so `isinstance(x, str)` holds natively) whose concrete content is a
placeholder token; every operation the verified code performs on it is answered symbolically.
`x in container` reaches SStr through the front end's `in` rewrite (__pyvc_in__); `==` with a real
str on the left reaches `SStr.__eq__` because Python gives the reflected method of a subclass
priority.  Character classes are ASCII (assumption recorded in the evidence)."""
import z3

from . import alg
from .ctx import Unsupported, active, cur
from .values import SBool, SNum

_REG = {}

S = z3.StringSort()


def sval(x):
    """z3 string term of a str / SStr"""
    if isinstance(x, SStr):
        return x.term
    if isinstance(x, str):
        return decode(x)
    raise Unsupported("string term of %r" % (type(x),))


def decode(s):
    """a real str possibly containing SStr placeholder tokens (from f-strings, concatenation) ->
    z3 string term"""
    if "\x01" not in s:
        return z3.StringVal(s)
    parts = []
    i = 0
    while i < len(s):
        a = s.find("\x01", i)
        if a < 0:
            parts.append(z3.StringVal(s[i:]))
            break
        if a > i:
            parts.append(z3.StringVal(s[i:a]))
        b = s.index("\x01", a + 1)
        parts.append(_REG[s[a : b + 1]])
        i = b + 1
    if len(parts) == 1:
        return parts[0]
    return z3.Concat(*parts)


def has_symbolic(s):
    return isinstance(s, SStr) or (isinstance(s, str) and "\x01" in s)


class SStr(str):
    __slots__ = ("term",)

    def __new__(cls, term):
        tok = "\x01s%d\x01" % len(_REG)
        o = str.__new__(cls, tok)
        o.term = term
        _REG[tok] = term
        return o

    __hash__ = str.__hash__

    def __eq__(self, o):
        if isinstance(o, str):
            return SBool(self.term == sval(o))
        return False

    def __ne__(self, o):
        if isinstance(o, str):
            return SBool(self.term != sval(o))
        return True

    def __pyvc_in__(self, container):
        """self in container"""
        if container is None:
            raise TypeError("argument of type 'NoneType' is not iterable")
        if isinstance(container, str):
            return SBool(z3.Contains(sval(container), self.term))
        if isinstance(container, (list, tuple, set, frozenset, dict)):
            ts = []
            for k in container:
                if not isinstance(k, str):
                    continue
                ts.append(self.term == sval(k))
            return SBool(alg.or_(*ts) if ts else False)
        raise Unsupported("SStr in %r" % (type(container),))

    def __pyvc_contains__(self, item):
        return SBool(z3.Contains(self.term, sval(item)))

    def __getitem__(self, i):
        if isinstance(i, slice):
            raise Unsupported("slice of a symbolic string")
        i = i.val if isinstance(i, SNum) else i
        if not alg.is_sym(i) and i < 0:
            raise Unsupported("negative index into a symbolic string")
        if active():
            cur().ensure(z3.Length(self.term) > alg.lift(i), IndexError, "string index out of range")
        return SStr(z3.SubString(self.term, alg.lift(i), z3.IntVal(1)))

    def __pyvc_len__(self):
        return SNum(z3.Length(self.term), False, "pyi")

    def __bool__(self):
        return bool(SBool(z3.Length(self.term) > 0))

    def isalpha(self):
        letter = z3.Union(z3.Range("a", "z"), z3.Range("A", "Z"))
        return SBool(z3.InRe(self.term, z3.Plus(letter)))

    def split(self, sep=None, maxsplit=-1):
        from .seqmodel import SymSeq

        if sep is None or maxsplit != -1 or has_symbolic(sep):
            raise Unsupported("split variant")
        c = cur()
        K = c.fresh("ntok", z3.IntSort())
        c.assume(K >= 1)  # str.split(sep) returns at least one token
        tok = c.fresh_fun("tok", z3.IntSort(), S)
        # tokens never contain the separator
        c.add_fact("token-has-no-separator", lambda q: alg.implies(alg.and_(alg.le(0, q), alg.lt(q, K)), z3.Not(z3.Contains(tok(alg.lift(q)), z3.StringVal(sep)))))
        from .loops import LoopCut

        # a `for` over the tokens is cut as a stateless loop: one arbitrary iteration stands for all
        cut = LoopCut("tokens", lambda loc: {}, lambda st, j, i: {}, length_of=lambda st: 0)
        cut.stateless = True
        seq = SymSeq(K, lambda q: SStr(tok(alg.lift(q))), cut, "tokens")
        seq.tok = tok
        seq.source = self
        if not hasattr(c, "ghost"):
            c.ghost = {}
        c.ghost.setdefault("splits", []).append(seq)
        return seq

    def __format__(self, spec):
        # f-strings are answered by fstr() (front-end rewrite).  "{}".format(s) and format(s) get the
        # placeholder token, exactly as "_".join([s, ...]) does: a real str that carries the token is
        # decoded back into the symbolic term wherever the model consumes it (decode()); real str
        # methods applied to such a string in between are outside the model (not detectable)
        if spec:
            raise Unsupported("format spec on a symbolic string")
        return str.__str__(self)

    def __str__(self):
        return self

    def __add__(self, o):
        if isinstance(o, str):
            return SStr(z3.Concat(self.term, sval(o)))
        return NotImplemented

    def __radd__(self, o):
        if isinstance(o, str):
            return SStr(z3.Concat(sval(o), self.term))
        return NotImplemented

    def __rmod__(self, fmt):
        # "...%s..." % symbolic
        if isinstance(fmt, str) and not has_symbolic(fmt) and fmt.count("%") == 1 and "%s" in fmt:
            a, b = fmt.split("%s")
            return SStr(z3.Concat(*[t for t in (z3.StringVal(a), self.term, z3.StringVal(b))]))
        raise Unsupported("%-formatting with a symbolic string")

    def __repr__(self):
        return "SStr(%s)" % (self.term,)


def _blocked(name):
    def f(self, *a, **k):
        raise Unsupported("str.%s on a symbolic string" % name)

    f.__name__ = name
    return f


# every str method that is not modelled above would silently operate on the placeholder content
for _n in dir(str):
    if _n in SStr.__dict__:
        continue
    if not _n.startswith("_") or _n in ("__mod__", "__rmod__", "__mul__", "__rmul__", "__lt__", "__le__", "__gt__", "__ge__", "__iter__", "__contains__"):
        setattr(SStr, _n, _blocked(_n))


def fstr(parts):
    """f-string evaluation (front-end rewrite of JoinedStr): parts are constants or
    (value, conversion, format_spec) triples; Python's own rule format(conv(value), spec) for real
    values, a symbolic concatenation as soon as one piece is a symbolic string"""
    pieces, symbolic = [], False
    for p in parts:
        if isinstance(p, str):
            pieces.append(p)
            continue
        v, conv, spec = p
        if conv == "r":
            if has_symbolic(v):
                raise Unsupported("!r of a symbolic string")
            v = repr(v)
        elif conv == "a":
            if has_symbolic(v):
                raise Unsupported("!a of a symbolic string")
            v = ascii(v)
        elif conv == "s" and not isinstance(v, str):
            v = str(v)
        if isinstance(v, str) and has_symbolic(v):
            if spec:
                raise Unsupported("format spec on a symbolic string")
            pieces.append(v if isinstance(v, SStr) else SStr(decode(v)))
            symbolic = True
        else:
            pieces.append(format(v, spec))
    if not symbolic:
        return "".join(pieces)
    ts = [sval(x) for x in pieces if isinstance(x, SStr) or x != ""]
    return SStr(ts[0] if len(ts) == 1 else z3.Concat(*ts))


# Python's float() grammar is not re-implemented: parsability and value are uninterpreted
PYFLOAT = z3.Function("py_float_parsable", S, z3.BoolSort())
STR2FLOAT = z3.Function("py_float_value", S, z3.RealSort())


def float_of(s):
    """float(s) for a symbolic string: ValueError unless parsable"""
    c = cur()
    c.use("builtins.float(str): uninterpreted parsability and value")
    c.ensure(PYFLOAT(s.term), ValueError, "could not convert string to float")
    return SNum(STR2FLOAT(s.term), False, "pyf")


def sym_str(name):
    return SStr(z3.String(name))


def _pyvc_float(self):
    return float_of(self)


SStr.__pyvc_float__ = _pyvc_float


# =========================================================================== re model
import re as _real_re  # noqa: E402


def _class_re(spec):
    """z3 regex of a single-character class body such as '0-9_' or '_a-zA-Z0-9'"""
    parts = []
    i = 0
    while i < len(spec):
        if i + 2 < len(spec) and spec[i + 1] == "-":
            parts.append(z3.Range(spec[i], spec[i + 2]))
            i += 3
        else:
            parts.append(z3.Re(spec[i]))
            i += 1
    return parts[0] if len(parts) == 1 else z3.Union(*parts)


def char_at(t, i):
    return z3.SubString(t, alg.lift(i), z3.IntVal(1))


class _Match:
    """a successful match of a symbolic string: truthy; its groups / spans are not modelled"""

    def __bool__(self):
        return True

    def __getattr__(self, name):
        raise Unsupported("re.Match.%s of a symbolic string" % name)


class _ReModel:
    """`re` as seen by the modules under verification: calls on real strings go to the real module;
    on symbolic strings two single-character-class patterns are modelled point-wise:
        re.match("^[CLASS]", s)          truth value: s starts with a character of CLASS
        re.sub("[^CLASS]", repl, s)      every character outside CLASS replaced by repl (len(repl) == 1)"""

    def __getattr__(self, name):
        real = getattr(_real_re, name)
        if not callable(real) or isinstance(real, type):
            return real

        def guarded(*a, **k):
            if any(isinstance(x, str) and has_symbolic(x) for x in list(a) + list(k.values())):
                raise Unsupported("re.%s on a symbolic string" % name)
            return real(*a, **k)

        return guarded

    def compile(self, pattern, flags=0):  # noqa: A003
        if has_symbolic(pattern):
            raise Unsupported("re.compile of a symbolic pattern")
        return _PatModel(self, pattern, flags)

    def match(self, pattern, s, flags=0):
        if not has_symbolic(s):
            return _real_re.match(pattern, s, flags)
        m = _real_re.fullmatch(r"\^?\[([^\]\^]+)\]", pattern)  # re.match anchors at the start with or without ^
        if not m or flags:
            raise Unsupported("re.match pattern %r on a symbolic string" % pattern)
        cur().use("re.match on a single-character class")
        t = sval(s)
        cls = _class_re(m.group(1))
        # re.match returns a Match object or None: decide now, so that `if re.match(..)`,
        # `re.match(..) is not None` and `bool(re.match(..))` all see the same answer
        if bool(SBool(z3.And(z3.Length(t) >= 1, z3.InRe(char_at(t, 0), cls)))):
            return _Match()
        return None

    def sub(self, pattern, repl, s, count=0, flags=0):
        if not has_symbolic(s):
            return _real_re.sub(pattern, repl, s, count, flags)
        m = _real_re.fullmatch(r"\[\^([^\]]+)\]", pattern)
        if not m or has_symbolic(repl) or len(repl) != 1 or count != 0 or flags:
            raise Unsupported("re.sub pattern %r on a symbolic string" % pattern)
        c = cur()
        c.use("re.sub of a negated single-character class")
        t = sval(s)
        cls = _class_re(m.group(1))
        r = c.fresh("resub", S)
        c.assume(z3.Length(r) == z3.Length(t))
        rep = z3.StringVal(repl)
        c.add_fact("re.sub-pointwise", lambda i: alg.implies(alg.and_(alg.le(0, i), alg.lt(i, z3.Length(t))), char_at(r, i) == z3.If(z3.InRe(char_at(t, i), cls), char_at(t, i), rep)))
        out = SStr(r)
        return out


class _PatModel:
    """compiled pattern: the modelled operations go through the module-level model"""

    def __init__(self, remod, pattern, flags):
        self._re, self.pattern, self.flags = remod, pattern, flags
        self._real = _real_re.compile(pattern, flags)

    def match(self, s, *a):
        if not has_symbolic(s):
            return self._real.match(s, *a)
        if a:
            raise Unsupported("Pattern.match with pos on a symbolic string")
        return self._re.match(self.pattern, s, self.flags)

    def sub(self, repl, s, count=0):
        if not has_symbolic(s) and not has_symbolic(repl):
            return self._real.sub(repl, s, count)
        return self._re.sub(self.pattern, repl, s, count, self.flags)

    def __getattr__(self, name):
        real = getattr(self._real, name)
        if not callable(real):
            return real

        def guarded(*a, **k):
            if any(isinstance(x, str) and has_symbolic(x) for x in list(a) + list(k.values())):
                raise Unsupported("Pattern.%s on a symbolic string" % name)
            return real(*a, **k)

        return guarded


RE = _ReModel()
