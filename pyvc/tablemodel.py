"""Contract model of the pandas DataFrame / Series vocabulary used by PandasStream (DESIGN T2).

A table is (n rows, index labels, named full-length columns).  A row subset is kept in the canonical
form (same columns, selection predicate over the original rows), so `.loc[mask, :]`, boolean indexing
and `subset[col]` compose without rank arithmetic; a column of a subset is a `Selection`."""
import z3

from . import alg
from . import npmodel as M
from .ctx import Unsupported, cur
from .npmodel import Arr, Selection
from .values import SBool, SNum


class ColSeries:
    """a column of a (possibly row-subset) frame"""

    def __getattr__(self, attr):
        from .ctx import unknown_attr

        return unknown_attr("pandas.Series", attr, ("calls", "fn", "fv", "fsec", "fns", "fnat", "ns", "secs", "base", "off", "is_input", "name", "readonly", "telescopes", "diff_of", "frame"))

    __hash__ = None
    __array_priority__ = 1000

    def __init__(self, frame, name):
        self.frame, self.name = frame, name

    def _col(self):
        return self.frame.cols[self.name]

    def _cmp(self, o, op):
        from .pdmodel import Timestamp

        col = self._col()
        if isinstance(o, Timestamp):
            o = SNum(o.ns, False, "M", "ns")
        if not M.is_scalar(o):
            raise Unsupported("Series comparison with %r" % (type(o),))
        return RowMask(self.frame, M.ew_binop(op, col, o))

    def __lt__(self, o):
        return self._cmp(o, "lt")

    def __le__(self, o):
        return self._cmp(o, "le")

    def __gt__(self, o):
        return self._cmp(o, "gt")

    def __ge__(self, o):
        return self._cmp(o, "ge")

    def to_numpy(self):
        # a view of the frame's column: not writable under copy-on-write
        return Selection(self._col(), self.frame.sel_arr())

    def __deepcopy__(self, memo):
        return ColSeries(self.frame, self.name)

    def __pyvc_array__(self):
        raise Unsupported("np.array(subset column) needs rank arithmetic")


class RowMask:
    """boolean Series aligned with a frame's rows (defined on the original row positions)"""

    def __getattr__(self, attr):
        from .ctx import unknown_attr

        return unknown_attr("pandas.Series", attr, ("frame", "arr"))

    def __init__(self, frame, arr):
        self.frame, self.arr = frame, arr


class _Loc:
    def __getattr__(self, attr):
        raise Unsupported("pandas .loc indexer attribute %s is not modelled" % attr)

    def __init__(self, frame):
        self.frame = frame

    def __getitem__(self, key):
        if not isinstance(key, tuple) or len(key) != 2:
            raise Unsupported("frame.loc[%r]" % (key,))
        rows, cols = key
        f = self.frame
        if isinstance(rows, RowMask):
            g0, g1 = f.sel_arr().getter(), rows.arr.getter()
            sel = Arr(f.n, "b", lambda i: (False, alg.and_(g0(i)[1], g1(i)[1])))
            f2 = Frame(f.n, f.cols, f.labels, sel)
        elif isinstance(rows, slice) and rows == slice(None, None, None):
            f2 = f
        else:
            raise Unsupported("frame.loc rows %r" % (type(rows),))
        if isinstance(cols, slice) and cols == slice(None, None, None):
            return f2
        if isinstance(cols, str):
            if cols not in f2.cols:
                raise KeyError(cols)
            return ColSeries(f2, cols)
        if isinstance(cols, list):
            for c_ in cols:
                if c_ not in f2.cols:
                    raise KeyError(c_)
            return Frame(f2.n, {c_: f2.cols[c_] for c_ in cols}, f2.labels, f2.sel)
        raise Unsupported("frame.loc cols %r" % (type(cols),))


class FrameIndex:
    """row labels of a (subset) frame"""

    def __getattr__(self, attr):
        from .ctx import unknown_attr

        return unknown_attr("pandas.Index", attr, ("frame",))

    def __init__(self, frame):
        self.frame = frame


class Frame:

    def __getattr__(self, attr):
        from .ctx import unknown_attr

        return unknown_attr("pandas.DataFrame", attr, ("calls", "fn", "fv", "fsec", "fns", "fnat", "ns", "secs", "base", "off", "is_input", "name", "readonly", "telescopes", "diff_of", "frame"))
    def __init__(self, n, cols, labels=None, sel=None):
        self.n = n
        self.cols = dict(cols)
        self.labels = labels  # row position -> label term (None: RangeIndex)
        self.sel = sel  # None: all rows

    def sel_arr(self):
        if self.sel is None:
            return M.const_arr(self.n, "b", (False, True))
        return self.sel

    def __pyvc_contains__(self, name):
        return name in self.cols

    def __contains__(self, name):
        return name in self.cols

    def __pyvc_len__(self):
        """len(df): the number of (selected) rows"""
        from .values import SNum

        if self.sel is None:
            return M._len_value(self.n)
        g = self.sel.getter()
        c = M.count_true(self.n, lambda i: g(i)[1], "rows")
        return SNum(c, False, "pyi") if alg.is_sym(c) else c

    @property
    def loc(self):
        return _Loc(self)

    @property
    def index(self):
        return FrameIndex(self)

    def __getitem__(self, name):
        if isinstance(name, str):
            if name not in self.cols:
                raise KeyError(name)
            return ColSeries(self, name)
        raise Unsupported("frame[%r]" % (type(name),))


_cnt = [0]


class _ILoc:
    def __getattr__(self, attr):
        raise Unsupported("pandas .iloc / .loc indexer attribute %s is not modelled" % attr)

    def __init__(self, s):
        self.s = s

    def __setitem__(self, key, value):
        """positions = the *labels* of the selected rows (what `.iloc[subset.index]` does): with a
        RangeIndex labels are positions; any other index reads labels as positions"""
        s = self.s
        if not isinstance(key, FrameIndex) or value is not True:
            raise Unsupported("Series.iloc[...] = ...")
        f = key.frame
        g = f.sel_arr().getter()
        if f.labels is None:
            s.arr.write(lambda i: g(i)[1], lambda i: (False, True))
            return
        # the labels of the selected rows are used as *positions*
        lab, n = f.labels, f.n
        c = cur()
        w = c.fresh("ilocw", z3.IntSort())
        bad = alg.and_(M.in_range(w, n), g(w)[1], alg.not_(M.in_range(lab(w), n)))
        if alg.simp(bad) is not False and c.fork(bad):
            raise IndexError("positional indexers are out-of-bounds")
        _cnt[0] += 1
        q = z3.Int("q!iloc%d" % _cnt[0])

        def hit(p):
            return z3.Exists([q], z3.And(q >= 0, q < alg.lift(n), alg.lift(g(q)[1]), alg.lift(lab(q)) == alg.lift(p)))

        s.arr.write(lambda p: hit(p), lambda p: (False, True))


class _SLoc(_ILoc):
    def __setitem__(self, key, value):
        """label-based: rows of `s` whose label is among the labels of the selected rows; labels are
        assumed unique"""
        s = self.s
        if not isinstance(key, FrameIndex) or value is not True:
            raise Unsupported("Series.loc[...] = ...")
        g = key.frame.sel_arr().getter()
        s.arr.write(lambda i: g(i)[1], lambda i: (False, True))


class FlagSeries:
    """pd.Series(0, index=df.index, dtype='bool')"""

    def __getattr__(self, attr):
        from .ctx import unknown_attr

        return unknown_attr("pandas.Series", attr, ("calls", "fn", "fv", "fsec", "fns", "fnat", "ns", "secs", "base", "off", "is_input", "name", "readonly", "telescopes", "diff_of", "frame"))

    def __init__(self, frame):
        self.frame = frame
        self.arr = M.const_arr(frame.n, "b", (False, False)).copy()

    @property
    def iloc(self):
        return _ILoc(self)

    @property
    def loc(self):
        return _SLoc(self)

    def to_numpy(self):
        return self.arr.copy()


def series_ctor(data=None, index=None, dtype=None):
    """pd.Series(...) as used by the streams"""
    from . import pdmodel

    if isinstance(index, FrameIndex):
        if data != 0 or dtype != "bool":
            raise Unsupported("pd.Series(%r, index=frame.index, dtype=%r)" % (data, dtype))
        return FlagSeries(index.frame)
    return pdmodel.Series(data, index, dtype)


from .ctx import guard_methods as _gm  # noqa: E402

for _cls, _lab in ((ColSeries, "pandas.Series"), (Frame, "pandas.DataFrame"), (FlagSeries, "pandas.Series")):
    _gm(_cls, _lab)

from .npmodel import _fill_missing_operators as _fmo  # noqa: E402

for _cls in (ColSeries, FlagSeries, RowMask, FrameIndex):
    _fmo(_cls, "pandas." + _cls.__name__)
