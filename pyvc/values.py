"""Scalar proxies handed to the real code: SBool (numpy.bool_ / bool) and SNum
(float64 / int64 / uint8 / datetime64 / timedelta64 scalars and Python numbers).

float64 = (isnan, real).  Ordered comparisons with NaN are False, `!=` is True.
Truth value of a symbolic proxy forks the path (ctx.fork).
"""
from fractions import Fraction

import z3

from . import alg
from .ctx import ModelLimit, Unsupported, active, cur

NS_PER_S = 10**9


class SBool:
    __slots__ = ("t",)
    __hash__ = None

    def __init__(self, t):
        if isinstance(t, SBool):
            t = t.t
        self.t = t

    def __bool__(self):
        if not alg.is_sym(self.t):
            return bool(self.t)
        return cur().fork(self.t)

    def _o(self, o):
        if isinstance(o, SBool):
            return o.t
        if isinstance(o, (bool, int)) and o in (0, 1):
            return bool(o)
        if alg.is_sym(o) and z3.is_bool(o):
            return o
        return NotImplemented

    def __and__(self, o):
        o = self._o(o)
        return o if o is NotImplemented else SBool(alg.and_(self.t, o))

    __rand__ = __and__

    def __or__(self, o):
        o = self._o(o)
        return o if o is NotImplemented else SBool(alg.or_(self.t, o))

    __ror__ = __or__

    def __invert__(self):  # numpy.bool_ semantics: logical not
        return SBool(alg.not_(self.t))

    def __eq__(self, o):
        o = self._o(o)
        return o if o is NotImplemented else SBool(alg.iff(self.t, o))

    def __ne__(self, o):
        o = self._o(o)
        return o if o is NotImplemented else SBool(alg.xor(self.t, o))

    def __repr__(self):
        return "SBool(%s)" % (self.t,)

    def __format__(self, spec):
        return "<bool>"


def truth(x):
    """term for the truth value of a model value"""
    if isinstance(x, SBool):
        return x.t
    if isinstance(x, SNum):
        return x.truth()
    if isinstance(x, bool):
        return x
    if alg.is_sym(x) and z3.is_bool(x):
        return x
    raise Unsupported("truth value of %r" % (type(x),))


def mkbool(t):
    return SBool(t)


_TOKENS = {}


class SNum:
    """kind: 'f' float64, 'i' int64, 'u' uint8, 'm' timedelta64[unit], 'M' datetime64[unit],
    'pyi' Python int, 'pyf' Python float (no methods such as astype)"""

    __slots__ = ("val", "nan", "kind", "unit")
    __hash__ = None

    def __init__(self, val, nan=False, kind="f", unit=None):
        self.val = val
        self.nan = nan
        self.kind = kind
        self.unit = unit

    # ---- helpers
    @staticmethod
    def coerce(o):
        """-> (nan, val, kind, unit) or None"""
        if isinstance(o, SNum):
            return o.nan, o.val, o.kind, o.unit
        if isinstance(o, SBool):
            return False, alg.ite(o.t, 1, 0), "i", None
        if isinstance(o, bool):
            return False, int(o), "pyi", None
        if isinstance(o, int):
            return False, o, "pyi", None
        if isinstance(o, Fraction):
            return False, o, "pyf", None
        if isinstance(o, float):
            if o != o:
                return True, 0, "pyf", None
            if o in (float("inf"), float("-inf")):
                raise ModelLimit("infinite operand")
            return False, alg.conc(o), "pyf", None
        try:
            import numpy as np

            if isinstance(o, (np.integer, np.floating, np.bool_)):
                return SNum.coerce(o.item())
        except ImportError:  # pragma: no cover
            pass
        return None

    def _isint(self):
        return self.kind in ("i", "u", "pyi")

    @staticmethod
    def _rk(k1, k2, op):
        if k1 in ("m", "M") or k2 in ("m", "M"):
            if op == "sub" and k1 == "M" and k2 == "M":
                return "m"
            if op in ("add", "sub") and k1 == "M":
                return "M"
            if op == "add" and k2 == "M":
                return "M"
            if op in ("add", "sub") and k1 == "m" and k2 == "m":
                return "m"
            if op in ("mul",) and (k1 == "m" or k2 == "m"):
                return "m"
            raise Unsupported("time arithmetic %s %s %s" % (k1, op, k2))
        ints = ("i", "u", "pyi")
        if op == "div":
            return "f"
        if k1 in ints and k2 in ints:
            if k1 == "pyi" and k2 == "pyi":
                return "pyi"
            return "i"
        if k1 in ("f",) or k2 in ("f",):
            return "f"
        if k1 == "pyf" and k2 == "pyf":
            return "pyf"
        if "pyf" in (k1, k2):
            # python float with numpy int -> float64, python float with python int -> python float
            return "pyf" if {k1, k2} <= {"pyf", "pyi"} else "f"
        return "f"

    def _bin(self, o, op, swap=False):
        c = SNum.coerce(o)
        if c is None:
            return NotImplemented
        an, av, ak, au = self.nan, self.val, self.kind, self.unit
        bn, bv, bk, bu = c
        if swap:
            an, av, ak, au, bn, bv, bk, bu = bn, bv, bk, bu, an, av, ak, au
        kind = SNum._rk(ak, bk, op)
        unit = au or bu
        if au and bu and au != bu:
            raise Unsupported("mixed time units")
        nan = alg.or_(an, bn)
        if op == "add":
            v = alg.add(av, bv)
        elif op == "sub":
            v = alg.sub(av, bv)
        elif op == "mul":
            v = alg.mul(av, bv)
        elif op == "div":
            if active():
                z = alg.and_(alg.not_(nan), alg.eq(bv, 0))
                if cur().fork(z):
                    if ak in ("pyi", "pyf") and bk in ("pyi", "pyf"):
                        raise ZeroDivisionError("division by zero")
                    raise ModelLimit("float division by zero gives inf/nan")
            if alg.is_sym(bv):
                v = alg.rdiv(av, alg.ite(alg.eq(bv, 0), 1, bv))
            else:
                v = alg.rdiv(av, bv) if bv != 0 else 0
        else:  # pragma: no cover
            raise AssertionError(op)
        return SNum(v, nan, kind, unit if kind in ("m", "M") else None)

    def __add__(self, o):
        return self._bin(o, "add")

    def __radd__(self, o):
        return self._bin(o, "add", True)

    def __sub__(self, o):
        return self._bin(o, "sub")

    def __rsub__(self, o):
        return self._bin(o, "sub", True)

    def __mul__(self, o):
        return self._bin(o, "mul")

    def __rmul__(self, o):
        return self._bin(o, "mul", True)

    def __truediv__(self, o):
        return self._bin(o, "div")

    def __rtruediv__(self, o):
        return self._bin(o, "div", True)

    def __neg__(self):
        return SNum(alg.neg(self.val), self.nan, self.kind, self.unit)

    def __pos__(self):
        return self

    def __abs__(self):
        return SNum(alg.abs_(self.val), self.nan, self.kind, self.unit)

    def _cmp(self, o, f, nanres=False):
        c = SNum.coerce(o)
        if c is None:
            return NotImplemented
        bn, bv = c[0], c[1]
        r = f(self.val, bv)
        anynan = alg.or_(self.nan, bn)
        if nanres:
            return SBool(alg.or_(anynan, r))
        return SBool(alg.and_(alg.not_(anynan), r))

    def __lt__(self, o):
        return self._cmp(o, alg.lt)

    def __le__(self, o):
        return self._cmp(o, alg.le)

    def __gt__(self, o):
        return self._cmp(o, alg.gt)

    def __ge__(self, o):
        return self._cmp(o, alg.ge)

    def __eq__(self, o):
        return self._cmp(o, alg.eq)

    def __ne__(self, o):
        return self._cmp(o, alg.ne, nanres=True)

    def truth(self):
        return alg.or_(self.nan, alg.ne(self.val, 0))

    def __bool__(self):
        t = self.truth()
        if not alg.is_sym(t):
            return bool(t)
        return cur().fork(t)

    def __int__(self):
        c = alg.as_concrete(self.val)
        if c is None or alg.as_concrete(self.nan) is not False:
            raise Unsupported("int() of a symbolic number through the builtin")
        return int(c)

    def __index__(self):
        c = alg.as_concrete(self.val)
        if c is None or not self._isint():
            raise Unsupported("__index__ of a symbolic number")
        return int(c)

    def __float__(self):
        c = alg.as_concrete(self.val)
        n = alg.as_concrete(self.nan)
        if c is None or n is None:
            raise Unsupported("float() of a symbolic number through the builtin")
        return float("nan") if n else float(c)

    # ---- numpy scalar API
    def astype(self, t):
        from .npmodel import dtype_of

        if self.kind in ("pyi", "pyf"):
            raise AttributeError("'%s' object has no attribute 'astype'" % ("int" if self.kind == "pyi" else "float"))
        d = dtype_of(t)
        return convert_scalar(self, d.kind, d.unit)

    @property
    def dtype(self):
        from .npmodel import DType

        if self.kind in ("pyi", "pyf"):
            raise AttributeError("dtype")
        return DType(self.kind, self.unit)

    def item(self):
        return self

    def __repr__(self):
        return "SNum(%s%s,%s)" % ("nan?" if self.nan is not False else "", self.val, self.kind)

    def __format__(self, spec):
        tok = "\x00num%d\x00" % (len(_TOKENS),)
        _TOKENS[tok] = self
        return tok

    __str__ = lambda self: self.__format__("")  # noqa: E731


def token_value(s):
    """recover the SNum embedded by an f-string, if any: -> (prefix, SNum, suffix)"""
    if "\x00" not in s:
        return None
    a = s.index("\x00")
    b = s.index("\x00", a + 1)
    return s[:a], _TOKENS[s[a : b + 1]], s[b + 1 :]


def convert_scalar(x, kind, unit=None):
    """numpy casting rules for the scalar kinds in the model"""
    nan, val, k, u = x.nan, x.val, x.kind, x.unit
    if kind == "f":
        if k in ("m", "M"):
            # NaT is the int64 minimum; cast to float it becomes -2**63 (not NaN)
            return SNum(alg.ite(nan, -(2**63), alg.to_real(val) if alg.is_sym(val) else val), False, "f")
        return SNum(alg.to_real(val) if alg.is_sym(val) else val, nan, "f")
    if kind in ("i", "u"):
        if k in ("f", "pyf"):
            if alg.as_concrete(nan) is not False:
                if active() and cur().fork(nan):
                    raise ModelLimit("NaN cast to int")
            return SNum(alg.trunc(val), False, kind)
        if k in ("m", "M"):
            return SNum(val, False, kind)
        return SNum(val, False, kind)
    if kind in ("m", "M"):
        if k in ("m", "M"):
            if u == unit:
                return SNum(val, nan, kind, unit)
            if u == "ns" and unit == "s":
                return SNum(alg.idiv(val, NS_PER_S), nan, kind, unit)
            if u == "s" and unit == "ns":
                return SNum(alg.mul(val, NS_PER_S), nan, kind, unit)
            raise Unsupported("time unit conversion %s->%s" % (u, unit))
        if k in ("i", "u", "pyi"):
            return SNum(val, False, kind, unit)
        raise Unsupported("cast %s -> %s" % (k, kind))
    if kind == "b":
        return SBool(x.truth())
    raise Unsupported("cast to %s" % kind)


def sym_real(name, nan=False):
    return SNum(z3.Real(name), nan, "pyf")


def sym_int(name):
    return SNum(z3.Int(name), False, "pyi")


def raw(x):
    """underlying algebra value of an integer-like model value (SNum/int)"""
    if isinstance(x, SNum):
        return x.val
    if isinstance(x, SBool):
        return x.t
    return x
