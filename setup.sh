#!/bin/sh
# Offline build of the verification environment: a Python 3.12 venv that overlays
# /venv's site-packages (numpy, pandas, xarray, ioos_qc's deps) and adds the solver
# bindings from the offline wheelhouse.
set -e
cd "$(dirname "$0")"
if [ -x .venv/bin/python ] && .venv/bin/python -c "import z3, cvc5, numpy, pandas, jsonschema" 2>/dev/null; then
  exit 0
fi
rm -rf .venv
/venv/bin/python -m venv .venv >/dev/null 2>&1
SP=$(.venv/bin/python -c "import site;print(site.getsitepackages()[0])")
echo "import site; site.addsitedir('/venv/lib/python3.12/site-packages')" > "$SP/overlay.pth"
PIP_NO_INDEX=1 .venv/bin/pip install -q --no-index --find-links /opt/veriftools/wheels \
    z3-solver cvc5 jsonschema icontract deal crosshair-tool >/dev/null 2>&1
.venv/bin/python -c "import z3, cvc5, numpy, pandas, jsonschema; print('setup ok: z3', z3.get_version_string())"
