#!/bin/sh
# tools/all_controls.sh [tier]: the behaviour-preserving refactorings under /verif/controls (negative
# controls) against every check: no check may print VIOLATION or exit non-zero; prints how many
# obligations stayed discharged / fell to the bounded stand-in
tier="${1:-quick}"
cd /repo || exit 9
git diff --quiet || { echo "/repo is dirty"; exit 9; }
export PYVC_EVIDENCE_DIR=/tmp/ctl_evidence PYVC_REPLAY_DIR=/tmp/ctl_replays
bad=0
for d in ${CONTROLS:-/verif/controls/R*/}; do
  id=$(basename "$d")
  git apply "$d/patch.diff" || { echo "$id patch does not apply"; bad=1; continue; }
  for p in C01 C02 C03 C04 C05 C06 C07 C08 C09 C10 C11 C12 C13 C14 C15 C16 C17 C18 C19 C20; do
    out=$(cd /verif && ./check "$p" "$tier" 2>&1); rc=$?
    line=$(printf '%s\n' "$out" | grep "$tier:" | head -1)
    und=$(printf '%s\n' "$out" | grep -c "UNDECIDED")
    if [ "$rc" != 0 ] || printf '%s\n' "$out" | grep -q "^VIOLATION"; then
      echo "$id $p FALSE-ALARM rc=$rc"; printf '%s\n' "$out" | grep -E "^VIOLATION|CHECKER" | head -5; bad=1
    else echo "$id $p quiet: $line"; [ "$und" -gt 0 ] && printf '%s\n' "$out" | grep "UNDECIDED" | cut -c1-200 | head -5; fi
  done
  git -C /repo checkout -- .
done
rm -rf /tmp/ctl_evidence /tmp/ctl_replays
exit $bad
