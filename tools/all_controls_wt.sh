#!/bin/sh
# tools/all_controls_wt.sh [parallel]: every control under /verif/controls against all 20 checks, each in its own
# scratch worktree (PYVC_REPO), several at a time; /repo is not touched.  Output: one file per control in
# /tmp/ctlwt/, summary at the end.
par="${1:-3}"
rm -rf /tmp/ctlwt; mkdir -p /tmp/ctlwt
run_one() {
  id="$1"; wt=/tmp/ctlwt/wt_$id
  git -C /repo worktree add --detach "$wt" HEAD -q || return
  if git -C "$wt" apply /verif/controls/$id/patch.diff; then /verif/tools/ctl_wt.sh "$wt" > /tmp/ctlwt/$id.out 2>&1; else echo "$id patch does not apply" > /tmp/ctlwt/$id.out; fi
  git -C /repo worktree remove --force "$wt"
}
n=0
for d in /verif/controls/R*/; do
  id=$(basename "$d"); run_one "$id" &
  n=$((n+1)); if [ $((n % par)) = 0 ]; then wait; fi
done
wait
git -C /repo worktree prune
grep -h "FALSE-ALARM\|does not apply" /tmp/ctlwt/*.out | head -20
echo "quiet lines: $(cat /tmp/ctlwt/*.out | grep -c ' quiet: ')  false alarms: $(cat /tmp/ctlwt/*.out | grep -c 'FALSE-ALARM')"
for f in /tmp/ctlwt/*.out; do echo "$(basename $f .out): $(grep -c ' quiet: ' $f) quiet, $(grep -c UNDECIDED $f) undecided lines"; done
