#!/bin/sh
# tools/all_seeds.sh [tier]: every seeded change under /verif/seeded against the check of its property
# (applied to /repo, checked, reverted); prints one line per seed: DETECTED / MISSED
tier="${1:-quick}"
cd /repo || exit 9
git diff --quiet || { echo "/repo is dirty"; exit 9; }
export PYVC_EVIDENCE_DIR=/tmp/seed_evidence PYVC_REPLAY_DIR=/tmp/seed_replays
missed=0
for d in /verif/seeded/C*/; do
  id=$(basename "$d"); prop=${id%%-*}
  git apply "$d/patch.diff" || { echo "$id patch does not apply"; missed=1; continue; }
  out=$(cd /verif && ./check "$prop" "$tier" 2>&1); rc=$?
  git -C /repo checkout -- .
  n=$(printf '%s\n' "$out" | grep -c "^VIOLATION property=$prop ")
  if [ "$rc" = 1 ] && [ "$n" -gt 0 ]; then echo "$id DETECTED ($n violation lines; $(printf '%s\n' "$out" | grep "^VIOLATION" | head -1 | cut -c1-160))"
  else echo "$id MISSED rc=$rc"; missed=1; fi
done
rm -rf /tmp/seed_evidence /tmp/seed_replays
exit $missed
