#!/bin/sh
# tools/confirm_seed.sh <worktree>: confirm a seeded change: demo fails with it, passes without, pinned suite
# passes with it.  No git stash (stashes are shared between the worktrees of a repository, concurrent
# confirmations would swap changes): the change is saved as a patch, reverted and re-applied.
wt="$1"
cd "$wt" || exit 9
git diff --quiet -- ioos_qc && { echo "$wt: no change applied"; exit 9; }
git diff -- ioos_qc > .confirm.patch
PYTHONPATH="$wt" /venv/bin/python demo.py >/dev/null 2>&1; with=$?
git checkout -- ioos_qc
PYTHONPATH="$wt" /venv/bin/python demo.py >/dev/null 2>&1; without=$?
git apply .confirm.patch || { echo "$wt: could not re-apply the change"; exit 9; }
PYTHONPATH="$wt" /venv/bin/python -m pytest -q -p no:cacheprovider --timeout=900 tests 2>&1 | tail -1 > .pytest_tail.txt
echo "$wt demo_with_change=$with demo_without=$without pytest: $(cat .pytest_tail.txt)"
