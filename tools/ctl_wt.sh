#!/bin/sh
# tools/ctl_wt.sh <worktree>: a behaviour-preserving refactoring in a scratch worktree against all 20
# checks, or those named in $CTL_PROPS (PYVC_REPO, /repo untouched): FALSE-ALARM lines for VIOLATION / non-zero exit, else counts
wt="$1"
export PYVC_REPO="$wt" PYVC_EVIDENCE_DIR=/tmp/ctl_evidence_$$ PYVC_REPLAY_DIR=/tmp/ctl_replays_$$
for p in ${CTL_PROPS:-C01 C02 C03 C04 C05 C06 C07 C08 C09 C10 C11 C12 C13 C14 C15 C16 C17 C18 C19 C20}; do
  out=$(cd /verif && ./check "$p" quick 2>&1); rc=$?
  line=$(printf '%s\n' "$out" | grep "quick:" | head -1)
  if [ "$rc" != 0 ] || printf '%s\n' "$out" | grep -q "^VIOLATION"; then
    echo "$p FALSE-ALARM rc=$rc $line"; printf '%s\n' "$out" | grep -E "^VIOLATION|CHECKER|^  " | cut -c1-260 | head -8
  else echo "$p quiet: $line"; printf '%s\n' "$out" | grep "UNDECIDED" | cut -c1-220 | head -4; fi
done
