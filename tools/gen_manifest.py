#!/usr/bin/env python
"""Regenerate MANIFEST.json from contracts/registry.py (claimed properties) and the list of
properties not (yet) claimed."""
import json
import os
import sys

HERE = os.path.dirname(os.path.dirname(os.path.abspath(__file__)))
sys.path.insert(0, HERE)
from contracts import registry  # noqa: E402

NOT_APPLICABLE = getattr(registry, "NOT_APPLICABLE", {})
props = [json.loads(l)["id"] for l in open(os.path.join(HERE, "properties.jsonl"))]
checks = []
for p in props:
    if p not in registry.PROPS:
        continue
    sp = registry.PROPS[p]
    checks.append(
        {
            "property_id": p,
            "quick_cmd": "./check %s quick" % p,
            "thorough_cmd": "./check %s thorough" % p,
            "evidence_file": "evidence/%s.json" % p,
            "replay_cmd_template": "./check --replay {path}",
            "engine": "pyvc",
            "level_claimed": {"category": sp["level"], "text": sp["explanation"], "design_ref": "DESIGN.md section 7, %s" % p},
            "level_note": "; ".join(sp["trusted_base"]) + " | assumptions: " + "; ".join(sp["assumptions"]),
            "technique": sp.get("technique", "contract-based deductive verification: symbolic execution of the real function objects -> per-path verification conditions at a Skolem index -> z3 (cvc5 fallback); counter-models replayed on the real code"),
        }
    )
m = {
    "version": 1,
    "setup_cmd": "./setup.sh",
    "hooks": {
        "guard": "IOOS_QC_VERIF",
        "enable": "none needed: contracts are sidecar files under /verif/contracts; the checks load /repo's working tree directly and rebind library names in private module copies",
        "baseline_off_cmd": "cd /repo && /venv/bin/python -m pytest -ra -q -p no:cacheprovider --timeout=900 --continue-on-collection-errors",
        "source_commits": [],
        "add_only": True,
    },
    "engines": [
        {
            "name": "pyvc",
            "path": "pyvc/",
            "serves_properties": [c["property_id"] for c in checks],
            "kind_free_text": "verification-condition generator for Python: the real function objects of /repo are executed by CPython on symbolic proxy values (numpy/pandas bound to contract models), every path yields obligations discharged by z3/cvc5 for symbolic array length and contents",
        }
    ],
    "checks": checks,
    "not_applicable": [{"property_id": p, "reason": NOT_APPLICABLE.get(p, "check not built yet (work in progress; plan in DESIGN.md section 7)")} for p in props if p not in registry.PROPS],
    "notes": "Known findings: known_findings.json. Fix commits in /repo start with 'fix:'. Exit codes: 0 held, 1 violation, 2 undecided without stand-in, 3 checker failure.",
}
json.dump(m, open(os.path.join(HERE, "MANIFEST.json"), "w"), indent=1)
import jsonschema  # noqa: E402

jsonschema.validate(m, json.load(open("/root/.vp/MANIFEST.schema.json")))
print("MANIFEST.json: %d checks, %d not applicable" % (len(checks), len(m["not_applicable"])))
