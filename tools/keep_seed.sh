#!/bin/sh
# tools/keep_seed.sh <worktree> <seed-id> <summary> <needs> <detected_how>: store a confirmed seeded change
# (run tools/confirm_seed.sh on the worktree first; its verdict line is copied into meta.json)
wt="$1"; id="$2"; d=/verif/seeded/$id
mkdir -p "$d" && git -C "$wt" diff -- ioos_qc > "$d/patch.diff" && cp "$wt/demo.py" "$d/demo.py" || exit 9
WT="$wt" ID="$id" SUMMARY="$3" NEEDS="$4" HOW="$5" python3 - <<'P'
import json, os, subprocess
wt, i = os.environ["WT"], os.environ["ID"]
files = subprocess.run(["git", "-C", wt, "diff", "--name-only", "--", "ioos_qc"], capture_output=True, text=True).stdout.split()
tail = open(os.path.join(wt, ".pytest_tail.txt")).read().strip() if os.path.exists(os.path.join(wt, ".pytest_tail.txt")) else "?"
json.dump({"property": i.split("-")[0], "summary": os.environ["SUMMARY"], "needs": os.environ["NEEDS"], "files": files, "breaks_property": i.split("-")[0],
           "author": "independent sub-agent given only the property text and a scratch worktree (round 7: asked for a subtle change that needs something specific to manifest)",
           "confirmed_by_me": "tools/confirm_seed.sh on the agent's worktree: demo exits 1 with the change, 0 without; pinned suite with the change: " + tail,
           "detected_how": os.environ["HOW"]}, open("/verif/seeded/%s/meta.json" % i, "w"), indent=1)
P
echo "kept $id"
