#!/usr/bin/env python3
"""tools/mutate.py <out-dir> <n-per-file> [seed]: simple syntactic mutants of the functions the properties are
anchored in (comparison flips, + <-> -, and <-> or, constant changes, dropped `not`, deleted simple
statements), one patch file per mutant (git diff format against /repo HEAD).  Self-evaluation of the
checks: a mutant that survives every check of its file's properties is either equivalent, outside the
properties, killed by the pinned suite anyway - or a gap."""
import ast
import json
import os
import random
import subprocess
import sys

REPO = "/repo"
TARGETS = {
    "ioos_qc/qartod.py": None,
    "ioos_qc/argo.py": None,
    "ioos_qc/axds.py": None,
    "ioos_qc/utils.py": {"isnan", "isfixedlength", "mapdates", "great_circle_distance", "cf_safe_name", "dict_depth", "dict_update", "load_config_as_dict", "load_config_from_xarray"},
    "ioos_qc/results.py": None,
    "ioos_qc/streams.py": {"run", "__init__"},
    "ioos_qc/config.py": None,
    "ioos_qc/stores.py": {"save", "compute_aggregate", "column_from_collected_result"},
    "ioos_qc/config_creator/fx_parser.py": None,
    "ioos_qc/config_creator/config_creator.py": {"_get_subset", "_get_stats", "_validate_fx", "create_config", "__init__", "_create_test_section"},
}
CMP = {ast.Lt: ast.LtE, ast.LtE: ast.Lt, ast.Gt: ast.GtE, ast.GtE: ast.Gt, ast.Eq: ast.NotEq, ast.NotEq: ast.Eq, ast.Is: ast.IsNot, ast.IsNot: ast.Is, ast.In: ast.NotIn, ast.NotIn: ast.In}
BIN = {ast.Add: ast.Sub, ast.Sub: ast.Add, ast.Mult: ast.Div, ast.BitAnd: ast.BitOr, ast.BitOr: ast.BitAnd}


class Finder(ast.NodeVisitor):
    def __init__(self, only):
        self.only, self.points, self.stack = only, [], []

    def visit_FunctionDef(self, node):
        self.stack.append(node.name)
        self.generic_visit(node)
        self.stack.pop()

    def generic_visit(self, node):
        inside = bool(self.stack) and (self.only is None or any(n in self.only for n in self.stack))
        if inside:
            if isinstance(node, ast.Compare):
                for i, op in enumerate(node.ops):
                    if type(op) in CMP:
                        self.points.append(("cmp", node, i))
            elif isinstance(node, ast.BinOp) and type(node.op) in BIN:
                self.points.append(("bin", node, None))
            elif isinstance(node, ast.BoolOp):
                self.points.append(("bool", node, None))
            elif isinstance(node, ast.UnaryOp) and isinstance(node.op, ast.Not):
                self.points.append(("not", node, None))
            elif isinstance(node, ast.Constant) and isinstance(node.value, (int, bool)) and not isinstance(node.value, str):
                self.points.append(("const", node, None))
            elif isinstance(node, (ast.Assign, ast.AugAssign, ast.Expr)) and not (isinstance(node, ast.Expr) and isinstance(node.value, ast.Constant)):
                self.points.append(("del", node, None))
        super().generic_visit(node)


def mutate(tree, point):
    kind, node, i = point
    if kind == "cmp":
        node.ops[i] = CMP[type(node.ops[i])]()
        return "compare %s" % type(node.ops[i]).__name__
    if kind == "bin":
        node.op = BIN[type(node.op)]()
        return "binop -> %s" % type(node.op).__name__
    if kind == "bool":
        node.op = ast.Or() if isinstance(node.op, ast.And) else ast.And()
        return "boolop -> %s" % type(node.op).__name__
    if kind == "not":
        node.op = ast.UAdd()  # `not x` -> `+x` keeps truthiness in a boolean context for bools... use identity instead
        return "drop not"
    if kind == "const":
        v = node.value
        node.value = (not v) if isinstance(v, bool) else (v + 1 if v in (0, 1, 2) else v - 1)
        return "const %r -> %r" % (v, node.value)
    if kind == "del":
        return None  # handled by the caller (needs the parent)
    return None


def main():
    out, n = sys.argv[1], int(sys.argv[2])
    rng = random.Random(int(sys.argv[3]) if len(sys.argv) > 3 else 1)
    os.makedirs(out, exist_ok=True)
    props = [json.loads(l) for l in open("/verif/properties.jsonl")]
    count = 0
    for rel, only in TARGETS.items():
        src = open(os.path.join(REPO, rel)).read()
        base_tree = ast.parse(src)
        f = Finder(only)
        f.visit(base_tree)
        idxs = list(range(len(f.points)))
        rng.shuffle(idxs)
        made = 0
        for ix in idxs:
            if made >= n:
                break
            tree = ast.parse(src)
            g = Finder(only)
            g.visit(tree)
            point = g.points[ix]
            kind, node, _ = point
            if kind == "del":
                # replace the statement by `pass`
                for parent in ast.walk(tree):
                    for field in ("body", "orelse", "finalbody"):
                        lst = getattr(parent, field, None)
                        if isinstance(lst, list) and node in lst:
                            lst[lst.index(node)] = ast.copy_location(ast.Pass(), node)
                desc = "delete statement at line %d: %s" % (node.lineno, ast.unparse(node)[:80])
            elif kind == "not":
                # replace `not x` by `x`
                done = False
                for parent in ast.walk(tree):
                    for field, value in ast.iter_fields(parent):
                        if value is node:
                            setattr(parent, field, node.operand)
                            done = True
                        elif isinstance(value, list) and node in value:
                            value[value.index(node)] = node.operand
                            done = True
                if not done:
                    continue
                desc = "drop `not` at line %d" % node.lineno
            else:
                d = mutate(tree, point)
                desc = "%s at line %d" % (d, node.lineno)
            try:
                new_src = ast.unparse(ast.fix_missing_locations(tree)) + "\n"
                compile(new_src, rel, "exec")
            except Exception:  # noqa: BLE001
                continue
            # write the mutant as a patch: normalise the original through ast.unparse too, so the diff
            # shows the mutation only; the patch replaces the file by its unparsed form
            count += 1
            mid = "M%03d" % count
            d = os.path.join(out, mid)
            os.makedirs(d, exist_ok=True)
            open(os.path.join(d, "new_source.py"), "w").write(new_src)
            files = [p["id"] for p in props if any(rel.endswith(os.path.basename(fp)) or fp == rel for fp in p["anchors"]["files"])]
            json.dump({"id": mid, "file": rel, "mutation": desc, "properties": files}, open(os.path.join(d, "meta.json"), "w"), indent=1)
            made += 1
    print("wrote", count, "mutants to", out)


if __name__ == "__main__":
    main()
