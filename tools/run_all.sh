#!/bin/sh
# run every claimed check (quick by default) on the current /repo and validate the evidence files
tier="${1:-quick}"
cd "$(dirname "$0")/.."
rc=0
for p in $(.venv/bin/python -c "import json;print(' '.join(c['property_id'] for c in json.load(open('MANIFEST.json'))['checks']))"); do
  ./check "$p" "$tier" 2>&1 | grep -v "WARNING conda" | grep -E "VIOLATION|CHECKER|UNDECIDED|$tier:|^  note: .*model disagrees" | cut -c1-420
  e=$?
  .venv/bin/python - "$p" <<'PY' || rc=1
import json, sys, jsonschema
p = sys.argv[1]
ev = json.load(open("evidence/%s.json" % p))
jsonschema.validate(ev, json.load(open("/root/.vp/EVIDENCE.schema.json")))
c = ev["coverage"]
if ev["level"] == "proof" and c["obligations"] != c["discharged"]:
    print("EVIDENCE %s: discharged %d != obligations %d" % (p, c["discharged"], c["obligations"])); sys.exit(1)
PY
done
exit $rc
