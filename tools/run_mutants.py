#!/usr/bin/env python3
"""tools/run_mutants.py <mutant-dir> [workers]: run the checks of each mutant's properties against a scratch
worktree holding the mutant (PYVC_REPO); writes <mutant-dir>/results.json and prints a summary.
verdict per mutant: detected (some check printed VIOLATION / exit 1), checker-error (exit 3 somewhere,
no violation), undecided (exit 0, some obligations undecided), quiet (everything discharged)."""
import json
import os
import re
import subprocess
import sys
from concurrent.futures import ThreadPoolExecutor


def run_one(d):
    meta = json.load(open(os.path.join(d, "meta.json")))
    wt = "/tmp/mut_" + meta["id"]
    subprocess.run(["git", "-C", "/repo", "worktree", "add", "--detach", wt, "HEAD", "-q"], check=True, capture_output=True)
    try:
        open(os.path.join(wt, meta["file"]), "w").write(open(os.path.join(d, "new_source.py")).read())
        env = dict(os.environ, PYVC_REPO=wt, PYVC_EVIDENCE_DIR="/tmp/mut_ev_" + meta["id"], PYVC_REPLAY_DIR="/tmp/mut_rp_" + meta["id"], PYVC_PROCS="4")
        res = {}
        verdict = "quiet"
        for p in meta["properties"]:
            r = subprocess.run(["./check", p, "quick"], cwd="/verif", env=env, capture_output=True, text=True, timeout=1800)
            out = r.stdout
            viol = [l for l in out.splitlines() if l.startswith("VIOLATION")]
            m = re.search(r"(\d+) obligations, (\d+) discharged, (\d+) undecided", out)
            res[p] = {"rc": r.returncode, "violations": len(viol), "first": viol[0][:200] if viol else "", "undecided": int(m.group(3)) if m else None, "errors": [l[:200] for l in out.splitlines() if l.startswith("CHECKER-ERROR")][:2]}
            if viol or r.returncode == 1:
                verdict = "detected"
                break
            if r.returncode == 3 and verdict != "detected":
                verdict = "checker-error"
            elif m and int(m.group(3)) and verdict == "quiet":
                verdict = "undecided"
        meta["results"], meta["verdict"] = res, verdict
    finally:
        subprocess.run(["git", "-C", "/repo", "worktree", "remove", "--force", wt], capture_output=True)
        subprocess.run(["rm", "-rf", "/tmp/mut_ev_" + meta["id"], "/tmp/mut_rp_" + meta["id"]])
    json.dump(meta, open(os.path.join(d, "result.json"), "w"), indent=1)
    print(meta["id"], meta["verdict"], meta["file"], meta["mutation"][:90], flush=True)
    return meta


def main():
    root = sys.argv[1]
    workers = int(sys.argv[2]) if len(sys.argv) > 2 else 3
    ds = sorted(os.path.join(root, x) for x in os.listdir(root) if os.path.isdir(os.path.join(root, x)) and not os.path.exists(os.path.join(root, x, "result.json")))
    with ThreadPoolExecutor(workers) as ex:
        metas = list(ex.map(run_one, ds))
    subprocess.run(["git", "-C", "/repo", "worktree", "prune"])
    allm = [json.load(open(os.path.join(root, x, "result.json"))) for x in sorted(os.listdir(root)) if os.path.exists(os.path.join(root, x, "result.json"))]
    json.dump(allm, open(os.path.join(root, "results.json"), "w"), indent=1)
    from collections import Counter

    print(Counter(m["verdict"] for m in allm))


if __name__ == "__main__":
    main()
