#!/bin/sh
# tools/seeds_wt.sh <glob>: seeded changes matching /verif/seeded/<glob> against the check of their property, each in
# a scratch worktree (PYVC_REPO; /repo is not touched, so this may run next to other checks): DETECTED / MISSED
export PYVC_EVIDENCE_DIR=/tmp/seedwt_evidence PYVC_REPLAY_DIR=/tmp/seedwt_replays
missed=0
for d in /verif/seeded/$1/; do
  id=$(basename "$d"); prop=${id%%-*}; wt=/tmp/seedwt_$id
  git -C /repo worktree add --detach "$wt" HEAD -q || continue
  if git -C "$wt" apply "$d/patch.diff"; then
    out=$(cd /verif && PYVC_REPO="$wt" ./check "$prop" quick 2>&1); rc=$?
    n=$(printf '%s\n' "$out" | grep -c "^VIOLATION property=$prop ")
    if [ "$rc" = 1 ] && [ "$n" -gt 0 ]; then echo "$id DETECTED ($n violation lines; $(printf '%s\n' "$out" | grep "^VIOLATION" | head -1 | cut -c1-170))"
    else echo "$id MISSED rc=$rc"; missed=1; fi
  else echo "$id patch does not apply"; missed=1; fi
  git -C /repo worktree remove --force "$wt"
done
rm -rf /tmp/seedwt_evidence /tmp/seedwt_replays
exit $missed
