#!/bin/sh
# tools/selftest_standin.sh [tier]: self-test of the bounded stand-in on the unchanged tree: every case's
# contract is evaluated on the REAL code over its whole grid even though everything is proved
# (PYVC_FORCE_STANDIN).  A VIOLATION here would be a false alarm waiting for the first change that makes
# the case undecided.  Evidence / replays go to /tmp.
tier="${1:-quick}"
export PYVC_FORCE_STANDIN=1 PYVC_EVIDENCE_DIR=/tmp/fs_ev PYVC_REPLAY_DIR=/tmp/fs_rp
bad=0
for p in C01 C02 C03 C04 C05 C06 C07 C08 C09 C10 C11 C12 C13 C14 C15 C16 C17 C18 C19 C20; do
  out=$(cd /verif && ./check "$p" "$tier" 2>&1); rc=$?
  n=$(python3 -c "import json;print(json.load(open('/tmp/fs_ev/$p.json'))['coverage'].get('bounded_standin_evaluations'))" 2>/dev/null)
  if [ "$rc" != 0 ] || printf '%s\n' "$out" | grep -q "^VIOLATION"; then echo "$p FAIL rc=$rc"; printf '%s\n' "$out" | grep -E "^VIOLATION|CHECKER" | head -5; bad=1
  else echo "$p ok: $n real evaluations of the contract"; fi
done
rm -rf /tmp/fs_ev /tmp/fs_rp
exit $bad
