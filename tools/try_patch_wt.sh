#!/bin/sh
# tools/try_patch_wt.sh <patch.diff> <prop> [...]: apply a patch in a fresh scratch worktree of /repo (HEAD),
# run the quick checks against it (PYVC_REPO), remove the worktree.  /repo itself is not touched.
patch="$1"; shift
wt=$(mktemp -d /tmp/tp.XXXXXX); rmdir "$wt"
git -C /repo worktree add --detach "$wt" HEAD -q || exit 9
git -C "$wt" apply "$patch" || { echo "patch does not apply"; git -C /repo worktree remove --force "$wt"; exit 9; }
/verif/tools/try_wt.sh "$wt" "$@"
git -C /repo worktree remove --force "$wt"; git -C /repo worktree prune
