#!/bin/sh
# tools/try_seed.sh <patch.diff> <prop> [<prop> ...]: apply a seeded change to /repo, run the quick checks, undo it
patch="$1"; shift
cd /repo || exit 9
git diff --quiet || { echo "/repo is dirty"; exit 9; }
git apply "$patch" || { echo "patch does not apply"; exit 9; }
export PYVC_EVIDENCE_DIR=/tmp/seed_evidence PYVC_REPLAY_DIR=/tmp/seed_replays
for p in "$@"; do
  (cd /verif && ./check "$p" quick 2>&1 | grep -v WARNING | grep -E "VIOLATION|KNOWN|quick:|CHECKER|UNDECIDED" | cut -c1-260 | head -12; echo "exit=$?")
done
git -C /repo checkout -- . ; git -C /repo status --short | head -3
