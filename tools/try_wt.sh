#!/bin/sh
# tools/try_wt.sh <worktree> <prop> [<prop> ...]: run the quick checks against a scratch worktree of the
# repository (PYVC_REPO) without touching /repo; evidence and replays go to /tmp
wt="$1"; shift
export PYVC_REPO="$wt" PYVC_EVIDENCE_DIR=/tmp/seed_evidence PYVC_REPLAY_DIR=/tmp/seed_replays
for p in "$@"; do
  (cd /verif && ./check "$p" quick 2>&1 | grep -v WARNING | grep -E "VIOLATION|KNOWN|quick:|CHECKER|UNDECIDED" | grep -v "^KNOWN" | cut -c1-260 | head -12)
done
