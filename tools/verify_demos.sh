#!/bin/sh
# tools/verify_demos.sh [seed-dir ...]: for every seeded change, apply its patch to /repo, run its demo
# (must exit 1), revert, run the demo again (must exit 0).  Sequential: git stash is shared between
# worktrees, so confirmations must never run concurrently.
cd /repo || exit 9
git diff --quiet || { echo "/repo is dirty"; exit 9; }
bad=0
for d in ${@:-/verif/seeded/C*/}; do
  id=$(basename "$d")
  git apply "$d/patch.diff" || { echo "$id patch does not apply"; bad=1; continue; }
  PYTHONPATH=/repo /venv/bin/python "$d/demo.py" >/dev/null 2>&1; w=$?
  git checkout -- . ; git clean -fdq ioos_qc 2>/dev/null
  PYTHONPATH=/repo /venv/bin/python "$d/demo.py" >/dev/null 2>&1; wo=$?
  if [ "$w" = 1 ] && [ "$wo" = 0 ]; then echo "$id ok (with=1 without=0)"; else echo "$id BAD with=$w without=$wo"; bad=1; fi
done
exit $bad
