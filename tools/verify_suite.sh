#!/bin/sh
# tools/verify_suite.sh <out-file> <seed-dir ...>: the pinned test suite with each seeded change applied, in
# its own scratch worktree (no git stash anywhere: stashes are shared between worktrees); expected tail
# "10 failed, 132 passed" for every seed.  One worktree per invocation; run several invocations in parallel.
out="$1"; shift
wt=$(mktemp -d /tmp/vs.XXXXXX); rmdir "$wt"
git -C /repo worktree add --detach "$wt" HEAD -q || exit 9
for d in "$@"; do
  id=$(basename "$d")
  git -C "$wt" apply "$d/patch.diff" || { echo "$id patch does not apply" >> "$out"; continue; }
  tail=$(cd "$wt" && PYTHONPATH="$wt" /venv/bin/python -m pytest -q -p no:cacheprovider --timeout=900 tests 2>&1 | tail -1)
  git -C "$wt" checkout -- . ; git -C "$wt" clean -fdq
  echo "$id $tail" >> "$out"
done
git -C /repo worktree remove --force "$wt"; git -C /repo worktree prune
